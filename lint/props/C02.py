"""C02 - annotations reach exactly the ancestors; records stay direct (clauses: KIND, PAIR, DOM/SELECT early exit, PHASE record lists; WIT thorough)"""
import re
from engines import kind_elements, kind_of_callee, MutSummary, positive_edges, bool_polarity
from engines import check_required_steps, receiver_calls
from engines import check_complete_iteration
from prov import Prov, params_of, field_names
from props import codec

CLAIM = ("(KIND) the gene / omim / orpha code paths of the builder, the term record and the read API never touch an element of another annotation kind, and "
         "all three kinds have their annotate/add/link/decode functions; (PAIR) each annotate_K on every success path both records the term in the "
         "record's direct list and calls the upward propagation with the same term and record id; (DOM/SELECT) HpoTermInternal::add_K returns the set "
         "insert's `was new` flag positively and link_K_term propagates to the ancestors on the `was new` edge (or unconditionally), never only on the "
         "`already present` edge, over the CLOSURE set of the term; (PHASE) the records' direct-term lists are written only by annotate_K and the record "
         "decoders - nothing reachable from the propagation writes them.")
NOT_DECIDED = "the iff with the descendant closure for every DAG and annotation history (relies on C01's undecided part and on the early-exit invariant)."

B = "ontology::builder::Builder::<ontology::builder::ConnectedTerms>::"
TI = "term::internal::HpoTermInternal::"
KINDS = {"Gene": ("gene", "genes", "annotations::gene::Gene"), "Omim": ("omim_disease", "omim_diseases", "annotations::omim_disease::OmimDisease"), "Orpha": ("orpha_disease", "orpha_diseases", "annotations::orpha_disease::OrphaDisease")}


def k1_table(prog):
    """frozen table A.1: (kind, body id, public?)"""
    out = []
    for K, (stem, plural, rec) in KINDS.items():
        out += [(K, B + "annotate_" + stem, True), (K, B + "add_" + stem, True)]
        out += [(K, B + "link_%s_term" % stem, False), (K, B + "calculate_%s_ic" % stem, False)]
        out += [(K, B + ("add_genes_from_bytes" if K == "Gene" else "add_%s_from_bytes" % stem), False)]
        out += [(K, TI + "add_" + stem, False), (K, TI + plural, False)]
        out += [(K, "term::hpoterm::HpoTerm::<'a>::" + plural, True), (K, "term::hpoterm::HpoTerm::<'a>::%s_ids" % stem, True)]
        out += [(K, "ontology::Ontology::" + stem, True), (K, "ontology::Ontology::" + plural, True)]
    out += [("Gene", "<annotations::gene::GeneIterator<'a> as std::iter::Iterator>::next", True)]
    out += [("Omim", "annotations::omim_disease::<impl std::iter::Iterator for annotations::disease::DiseaseIterator<'a, annotations::omim_disease::OmimDiseaseId>>::next", True)]
    out += [("Orpha", "annotations::orpha_disease::<impl std::iter::Iterator for annotations::disease::DiseaseIterator<'a, annotations::orpha_disease::OrphaDiseaseId>>::next", True)]
    return out




def record_helper(prog, pv, pvn, b, plural):
    """a call in `b` of a private, loop-free helper H that receives `&mut self.<plural>` and does  <H's map param>.entry(<key param>) .. .add_term(<term param>):
    {"site": (bb, call), "helper": H, "key"/"term": parameters of b that reach H's key / term parameter, "map": Builder fields that reach the map parameter,
    "creates": the helper creates a missing record (entry + or_insert_with / or_insert / or_default)}"""
    for bi, t in b.calls():
        hb = prog.bodies.get(t.callee.res or "")
        if hb is None or hb.kind not in ("Fn", "AssocFn") or hb.exported or hb.reachable or hb.impl_trait or hb.natural_loops():
            continue
        if not any(plural in field_names(pvn.of_operand(b, a), "Builder") for a in t.args):
            continue
        at = [(hbi, ht) for hbi, ht in hb.calls() if ht.callee.method == "add_term" and len(ht.args) == 2]
        if len(at) != 1:
            continue
        ht = at[0][1]
        chain = receiver_calls(hb, pvn, ht.args[0])
        lk = [c for c in chain if c.callee.method in ("entry", "get_mut", "get") and "HashMap" in ((c.callee.def_args or "") + (c.callee.name or "")) and len(c.args) >= 2]
        if not lk:
            continue
        def back(ps):
            out = set()
            for p_ in ps:
                if 1 <= p_ <= len(t.args):
                    out |= params_of(pvn.of_operand(b, t.args[p_ - 1]), b.id)
            return out
        mp = params_of(pvn.of_operand(hb, lk[-1].args[0]), hb.id)
        fields = set()
        for p_ in mp:
            if 1 <= p_ <= len(t.args):
                fields |= field_names(pvn.of_operand(b, t.args[p_ - 1]), "Builder")
        return {"site": (bi, t), "helper": hb, "key": back(params_of(pvn.of_operand(hb, lk[-1].args[1]), hb.id)), "term": back(params_of(pvn.of_operand(hb, ht.args[1]), hb.id)),
                "map": fields, "creates": lk[-1].callee.method == "entry" and any(c.callee.method in ("or_insert_with", "or_insert", "or_default", "or_insert_with_key") for c in chain)}
    return None

def link_delegate(prog, pv, pvn, lb, add_id):
    """lb = link_K_term without a direct add_K call.  Recognises  `H(self, term_id, <closure | &closure>)`  where the closure (built in lb)
    calls add_K(<its parameter>, <lb's record id parameter>); returns (H body, term param of H, callable param of H, the calls of the callable
    in H, step_ok, step description) or None"""
    cands = []
    for bi, t in lb.calls():
        hb = prog.bodies.get(t.callee.res or "")
        if hb is None or hb.kind not in ("Fn", "AssocFn") or hb.id == lb.id:
            continue
        term_p = [i + 1 for i, a in enumerate(t.args) if params_of(pvn.of_operand(lb, a), lb.id) == {2}]
        clos = [(i + 1, pv.closure_of_operand(lb, a)) for i, a in enumerate(t.args) if pv.closure_of_operand(lb, a)]
        if len(term_p) == 1 and len(clos) == 1:
            cands.append((hb, term_p[0], clos[0][0], clos[0][1]))
    if len(cands) != 1:
        return None
    hb, term_p, f_p, cid = cands[0]
    cb = prog.bodies.get(cid)
    if cb is None:
        return None
    inner = [(bi, t) for bi, t in cb.calls() if t.callee.res == add_id]
    others = [(bi, t) for bi, t in cb.calls() if t.callee.res != add_id and (t.callee.res or "") in prog.bodies]
    if len(inner) != 1 or others or cb.natural_loops():
        return None
    ct = inner[0][1]
    # the closure's own parameter (local 2) is the term, the captured value is lb's record id (param 3); the closure returns add_K's flag
    ta = Prov(prog, inline=False, mutflow=False, bind_closures=False).of_operand(cb, ct.args[0])
    ia = params_of(pv.of_operand(cb, ct.args[1]), lb.id)
    term_is_param = params_of(ta, cb.id) == {2}
    pol, _ = bool_polarity(cb, Prov(prog, inline=False), lambda c: c.res == add_id)
    step_ok = term_is_param and ia == {3} and pol == 1
    msg = "`|term| term.%s(%s)`%s" % (add_id.rsplit("::", 1)[-1], "/".join(lb.local_name(x) for x in ia) or "?", "" if pol == 1 else " (flag %s)" % ("negated" if pol == 0 else "not returned as is"))
    hadds = []
    for bi, t in hb.calls():
        if t.callee.res is None and (t.callee.trait or "").rsplit("::", 1)[-1] in ("Fn", "FnMut", "FnOnce") and t.args and params_of(pvn.of_operand(hb, t.args[0]), hb.id) == {f_p}:
            hadds.append((bi, t))
    if not hadds:
        return None
    return hb, term_p, f_p, hadds, step_ok, msg


def link_shape(ck, prog, pv, pvn, stem, K, lb, hb, term_p, id_p, adds, direct):
    """the propagation shape rules, on `hb` (link_K_term itself, or the shared helper it delegates to).  `id_p` = the parameter of hb
    that carries the record's identity (the record id; or the step closure), `term_p` = its term-id parameter"""
    add_term_op = (lambda t: t.args[0]) if direct else (lambda t: t.args[1])
    add_id_op = (lambda t: t.args[1]) if direct else (lambda t: t.args[0])
    idname = lambda ps: "/".join(hb.local_name(p) for p in ps) or "?"
    recs = [(bi, t) for bi, t in hb.calls() if t.callee.res == hb.id]
    # recursion sites: direct calls, and calls inside a closure handed to an iterator adaptor (for_each / try_for_each / map ...)
    recsites = [{"bb": bi, "line": t.line, "term": pv.of_operand(hb, t.args[term_p - 1]), "id": params_of(pvn.of_operand(hb, t.args[id_p - 1]), hb.id)} for bi, t in recs]
    for cb_ in prog.family(hb):
        if cb_ is hb or cb_.kind != "Closure":
            continue
        for cbi, ct_ in cb_.calls():
            if ct_.callee.res != hb.id:
                continue
            for abi_, at2 in hb.calls():
                if len(at2.args) >= 2 and any(pv.closure_of_operand(hb, a_) == cb_.id for a_ in at2.args[1:]):
                    recsites.append({"bb": abi_, "line": at2.line, "term": pv.of_operand(hb, at2.args[0]), "id": params_of(pv.of_operand(cb_, ct_.args[id_p - 1]), hb.id)})
    if not recsites:
        # iterative (work-list) form: the `already present` edge may end the visit of THAT term only - it must stay inside the loop;
        # the `was new` side must feed the term's ancestors (direct parents or the closure) back into the work list
        abi0, at0 = adds[0]
        lp = hb.loop_of(abi0)
        in_loop = [(bi_, t_) for bi_, t_ in adds if hb.loop_of(bi_) is not None]
        if lp is None and in_loop:
            # flat form: the term itself first, then ONE pass over its closure set (which is transitively closed, so no descent is needed)
            from engines import for_loops, loop_skip_path
            bi1, t1 = in_loop[0]
            fl_ = [l_ for l_ in for_loops(hb) if bi1 in l_["blocks"]]
            if not fl_:
                ck.undecided("DOM", "link_%s_term/propagation" % stem, "link_%s_term links the ancestors in a loop that is not a `for` over a collection" % stem, where=hb.where(t1.line))
                return
            l1 = fl_[0]
            src = pv.of_operand(hb, l1["iter"])
            fl_names = field_names(src, "HpoTermInternal") & {"parents", "all_parents", "children"}
            src_term = set()
            for a in pvn.of_operand(hb, l1["iter"]):
                if a[0] == "call" and a[3] == hb.id and "termarena::Arena::get" in a[1]:
                    src_term |= params_of(pvn.of_operand(hb, hb.blocks[a[4]].term.args[1]), hb.id)
            pos_e = positive_edges(hb, pvn, abi0)
            neg_only = False
            for (sbi, tg) in pos_e:
                for o in hb.blocks[sbi].term.successors():
                    if o != tg and l1["header"] in hb.region((sbi, o)) and not any(l1["header"] in hb.region((sbi, tg2)) for (_, tg2) in pos_e):
                        neg_only = True
            ck.ob("DOM", "link_%s_term/propagation" % stem, not neg_only, "link_%s_term walks the ancestors %s" % (stem, "when the id was newly added (or unconditionally)" if not neg_only else "ONLY when the id was already present: new annotations never reach the ancestors"), where=hb.where(t1.line))
            ck.ob("DOM", "link_%s_term/over-closure" % stem, fl_names == {"all_parents"} and (not src_term or src_term == {term_p}), "the flat pass visits %s of the term looked up by `%s`" % ("the closure set (all_parents)" if fl_names == {"all_parents"} else (sorted(fl_names) or "?"), idname(src_term)), where=hb.where(t1.line))
            skipped = loop_skip_path(hb, l1, {bi_ for bi_, _ in in_loop})
            ck.ob("DOM", "link_%s_term/every-ancestor" % stem, not skipped, "every ancestor of the pass gets the id (no path back to the loop head without adding it)" if not skipped else "some ancestors are passed over without getting the id", where=hb.where(t1.line))
            elem_ok = all(any(x[0] == "call" and x[3] == hb.id and x[4] == l1["next_bb"] for x in pvn.of_operand(hb, add_term_op(t_))) for _, t_ in in_loop)
            ida = params_of(pvn.of_operand(hb, add_id_op(t1)), hb.id)
            key = set()
            for a in pvn.of_operand(hb, add_term_op(at0)):
                if a[0] == "call" and a[3] == hb.id and "termarena::Arena::get" in a[1]:
                    key |= params_of(pvn.of_operand(hb, hb.blocks[a[4]].term.args[1]), hb.id)
            ida0 = params_of(pvn.of_operand(hb, add_id_op(at0)), hb.id)
            ck.ob("DOM", "link_%s_term/links" % stem, key == {term_p} and ida0 == {id_p} and ida == {id_p} and elem_ok, "link_%s_term adds record `%s` to the term looked up by `%s` and to each element of the pass" % (stem, idname(ida0), idname(key)), where=hb.where(at0.line))
            return
        if lp is None:
            # the walk may be handed to a private helper that loops over a group it is given and applies a closure to every term of it
            # (`self.for_each_term(&ancestors, |t| { t.add_K(id); })`): the flat pass exists, its shape is not read through the helper
            for cbi_, ct_ in hb.calls():
                tgh_ = prog.bodies.get(ct_.callee.res or "")
                if tgh_ is None or tgh_.kind not in ("Fn", "AssocFn") or tgh_.exported or tgh_.reachable or tgh_.id == hb.id or not tgh_.natural_loops():
                    continue
                cl_ = [prog.bodies.get(pv.closure_of_operand(hb, a_) or "") for a_ in ct_.args]
                cl_ = [c_ for c_ in cl_ if c_ is not None and c_.kind == "Closure"]
                if any(any((t2.callee.res or "").endswith("HpoTermInternal::add_" + stem) for _, t2 in c_.calls()) for c_ in cl_):
                    ck.undecided("DOM", "link_%s_term/propagation" % stem, "link_%s_term hands the walk over the ancestors to the private helper %s together with the closure that adds the %s: the flat pass is not read through that helper" % (stem, tgh_.short, K), where=hb.where(ct_.line))
                    return
            ck.ob("DOM", "link_%s_term/propagation" % stem, False, "link_%s_term neither recurses nor loops: the %s never reaches the ancestors" % (stem, K), where=hb.where())
            return
        header, blocks = lp
        pos_e = positive_edges(hb, pvn, abi0)
        ok_neg = True
        line = at0.line
        for (sbi, tg) in pos_e:
            x = hb.blocks[sbi].term
            for o in x.successors():
                if o == tg:
                    continue
                # from the `already present` target: can a return be reached without coming back to the loop header?
                seen, st = set(), [o]
                while st:
                    y = st.pop()
                    if y in seen or y == header:
                        continue
                    seen.add(y)
                    if hb.blocks[y].term.k == "return":
                        ok_neg = False
                    st.extend(hb.succ[y])
        ck.ob("DOM", "link_%s_term/propagation" % stem, ok_neg, "link_%s_term (work-list form) %s" % (stem, "continues with the remaining work when an id was already present" if ok_neg else "RETURNS from the whole walk when one term already carries the id: terms still on the work list are never linked"), where=hb.where(line))
        fed = set()
        FEED = ("extend", "push", "append", "extend_from_slice", "insert", "push_back", "push_front")

        def feeds(t2):
            if t2.callee.method in FEED:
                return True
            # a private work-list type with its own feeding method (`pending.defer(term.all_parents())`)
            tb = prog.bodies.get(t2.callee.res or "")
            return tb is not None and tb.kind in ("Fn", "AssocFn") and not (tb.exported or tb.reachable or tb.impl_trait) and any(x.callee.method in FEED for fb2 in prog.family(tb) for _, x in fb2.calls())
        for bi2, t2 in hb.calls():
            if bi2 in blocks and len(t2.args) > 1 and feeds(t2):
                fed |= field_names(pv.of_operand(hb, t2.args[1]), "HpoTermInternal") & {"parents", "all_parents", "children"}
        ck.ob("DOM", "link_%s_term/over-closure" % stem, bool(fed) and "children" not in fed, "the work list is fed with the term's %s" % (sorted(fed) or "nothing"), where=hb.where())
        ida = params_of(pvn.of_operand(hb, add_id_op(at0)), hb.id)
        ck.ob("DOM", "link_%s_term/links" % stem, ida == {id_p}, "link_%s_term adds record `%s` to every visited term" % (stem, idname(ida)), where=hb.where(at0.line))
        return
    abi, at_ = adds[0]
    pos_e = positive_edges(hb, pvn, abi)
    for rs_ in recsites:
        rbi = rs_["bb"]
        neg_only = False
        for (sbi, tg) in pos_e:
            x = hb.blocks[sbi].term
            others = [o for o in x.successors() if o != tg]
            if any(rbi in hb.region((sbi, o)) for o in others):
                neg_only = True
        ck.ob("DOM", "link_%s_term/propagation" % stem, not neg_only, "link_%s_term recurses %s" % (stem, "when the id was newly added (or unconditionally)" if not neg_only else "ONLY when the id was already present: new annotations never reach the ancestors"), where=hb.where(rs_["line"]))
        # the recursion iterates the closure set of the term, keyed by the same record id
        fl = field_names(rs_["term"], "HpoTermInternal")
        ida = rs_["id"]
        ck.ob("DOM", "link_%s_term/over-closure" % stem, "all_parents" in fl and ida == {id_p}, "the propagation visits %s of the term with the same record id" % ("the closure set (all_parents)" if "all_parents" in fl else sorted(fl & {"parents", "children"}) or "?"), where=hb.where(rs_["line"]))
    # the linked term is the looked-up term_id
    key = set()
    for a in pvn.of_operand(hb, add_term_op(at_)):
        if a[0] == "call" and a[3] == hb.id and "termarena::Arena::get" in a[1]:
            key |= params_of(pvn.of_operand(hb, hb.blocks[a[4]].term.args[1]), hb.id)
    ida = params_of(pvn.of_operand(hb, add_id_op(at_)), hb.id)
    ck.ob("DOM", "link_%s_term/links" % stem, key == {term_p} and ida == {id_p}, "link_%s_term adds record `%s` to the term looked up by `%s`" % (stem, idname(ida), idname(key)), where=hb.where(at_.line))


def run(ck, prog, ctx):
    ck.rule("KIND", "K1 single-kind bodies / K3 exhaustiveness (DESIGN 3.3)")
    ck.rule("PAIR", "record update and propagation on every success path (DESIGN 3.7)")
    ck.rule("DOM", "propagation is not confined to the already-linked edge (DESIGN 3.6/3.10)")
    ck.rule("PHASE", "writers of the records' direct-term lists (DESIGN 3.8)")
    pv = Prov(prog)
    pvn = Prov(prog, inline=False, mutflow=False)
    ms = MutSummary(prog)

    # ------------------------------------------------------------------ KIND K1
    n = 0
    for K, bid, public in k1_table(prog):
        b = prog.body(bid)
        if b is None:
            if public:
                ck.anchor("KIND", bid, None)
            continue
        n += 1
        els = []
        for fb in prog.family(b):
            els += kind_elements(fb)
        foreign = [e for e in els if e[0] != K]
        own = [e for e in els if e[0] == K]
        if foreign:
            ck.violation("KIND", "K1/" + b.short, "%s (kind %s) touches a %s element: %s" % (b.short, K, foreign[0][0], foreign[0][1]), where=b.where(foreign[0][2]))
        elif not own:
            ck.undecided("KIND", "K1/" + b.short, "no kind-labelled element", where=b.where())
        else:
            ck.ob("KIND", "K1/" + b.short, True, "%s stays within kind %s (%d labelled elements)" % (b.short, K, len(own)), where=b.where())
    ck.floor("KIND", "single-kind bodies", n, 20)
    for K, (stem, plural, rec) in sorted(KINDS.items()):
        for nm in ("annotate_" + stem, "add_" + stem):
            b = prog.body(B + nm)
            ck.ob("KIND", "K3/" + nm, b is not None and b.reachable, "public Builder<ConnectedTerms>::%s exists" % nm if b is not None else "coverage-floor: Builder<ConnectedTerms>::%s is missing" % nm)

    # ------------------------------------------------------------------ add_K never replaces an existing record (its direct terms would be lost)
    for K, (stem, plural, rec) in sorted(KINDS.items()):
        b = prog.body(B + "add_" + stem)
        if b is None:
            continue
        stores = []
        for fb in prog.family(b):
            for bi, t in fb.calls():
                c = t.callee
                owner = (c.impl_self or "") + " " + (c.name or "")
                if c.method == "insert" and "OccupiedEntry" in owner:
                    stores.append((fb, t, "OccupiedEntry::insert", False))
                elif c.method == "insert" and "VacantEntry" in owner:
                    stores.append((fb, t, "VacantEntry::insert", True))
                elif c.method in ("or_insert", "or_insert_with", "or_insert_with_key", "or_default") and "Entry" in owner:
                    stores.append((fb, t, "Entry::" + c.method, True))
                elif c.method == "insert" and "HashMap" in owner:
                    stores.append((fb, t, "HashMap::insert", None))
        if not stores:
            ck.undecided("DOM", "add_%s/store" % stem, "no store into the record map recognised", where=b.where())
        for i, (fb, t, how, ok) in enumerate(stores):
            if ok is None:
                # HashMap::insert replaces: it has to sit on the absent edge of a lookup of the same map
                absent = []
                tests = [(gbi, gt) for gbi, gt in fb.calls() if gt.callee.method in ("contains_key", "get", "get_mut") and "HashMap" in ((gt.callee.impl_self or "") + (gt.callee.name or ""))]
                for gbi, gt in tests:
                    pos = positive_edges(fb, pvn, gbi)
                    neg = [(sb, y) for sb, _ in pos for y in fb.succ[sb] if (sb, y) not in pos]
                    absent += neg
                bb = next(bi for bi, tt in fb.calls() if tt is t)
                guarded = any(fb.edge_dominates(e, bb) for e in absent)
                if guarded:
                    ck.ob("DOM", "add_%s/store/%d" % (stem, i), True, "add_%s stores the new %s record with HashMap::insert on the absent edge of a lookup" % (stem, K), where=fb.where(t.line))
                elif tests:
                    ck.undecided("DOM", "add_%s/store/%d" % (stem, i), "record stored with HashMap::insert next to a lookup whose polarity is not recognised", where=fb.where(t.line))
                else:
                    ck.ob("DOM", "add_%s/store/%d" % (stem, i), False, "add_%s stores the new %s record with an unconditional HashMap::insert: an EXISTING record is replaced and the terms it had collected are lost" % (stem, K), where=fb.where(t.line))
            else:
                ck.ob("DOM", "add_%s/store/%d" % (stem, i), ok, "add_%s stores the new %s record through %s%s" % (stem, K, how, "" if ok else ": an EXISTING record is replaced and the terms it had collected are lost while the terms keep their links"), where=fb.where(t.line))

    # ------------------------------------------------------------------ PAIR in annotate_K
    for K, (stem, plural, rec) in sorted(KINDS.items()):
        b = prog.body(B + "annotate_" + stem)
        if b is None:
            continue
        oks = [pos for pos, s in b.stmts() if s.k == "assign" and s.place.local == 0 and s.rv["k"] == "agg" and s.rv.get("variant") == "Ok"]
        adds = [(bi, t) for bi, t in b.calls() if (t.callee.res or "").endswith("::add_term") and rec.rsplit("::", 1)[-1] in (t.callee.def_args or "") + (t.callee.res or "")]
        links = [(bi, t) for bi, t in b.calls() if t.callee.res == B + "link_%s_term" % stem]
        # `record the term` written through a private helper  H(&mut self.<plural>, id, .., term_id)  that does `entry(id).or_insert_with(..).add_term(term_id)`
        via = None
        if not adds:
            via = record_helper(prog, pv, pvn, b, plural)
            if via is not None:
                adds_h = [via["site"]]
        if not oks:
            # tail form: `self.link_K_term(term_id, id)` is the function's value - its Ok is the success
            oks = [(bi, len(b.blocks[bi].stmts)) for bi, t in links if t.dest is not None and t.dest.is_local() and t.dest.local == 0]
        if not oks:
            ck.undecided("PAIR", "annotate_%s/success" % stem, "success return not recognised", where=b.where())
            continue
        for what, sites in (("records the term in the %s record" % K, adds if via is None else adds_h), ("propagates to the ancestors (link_%s_term)" % stem, links)):
            key = "annotate_%s/%s" % (stem, "propagate" if sites is links else "record")
            ok = bool(sites) and all(any(b.dominates(bi, pos[0]) for bi, _ in sites) for pos in oks)
            ck.ob("PAIR", key, ok, "annotate_%s %s on every success path" % (stem, what) if ok else "annotate_%s can return Ok without having %s" % (stem, what.replace("records", "recorded").replace("propagates", "propagated")), where=b.where())
        creates = [(bi, t) for bi, t in b.calls() if t.callee.res == B + "add_" + stem] + [(bi, t) for bi, t in b.calls() if t.callee.method in ("entry", "insert") and plural in field_names(pvn.of_operand(b, t.args[0]), "Builder")]
        if via is not None and via["creates"]:
            creates = creates + [via["site"]]
        okc = bool(creates) and all(any(b.dominates(bi, pos[0]) for bi, _ in creates) for pos in oks)
        ck.ob("PAIR", "annotate_%s/creates-record" % stem, okc, "annotate_%s %s" % (stem, "creates the %s record (if missing) on every success path" % K if okc else "can succeed without the %s record existing in the ontology: the term would carry a dangling id" % K), where=b.where())
        # argument roles
        pn = {v: k for k, v in b.arg_names.items()}
        term_p = next((p for p, nm in b.arg_names.items() if "term" in nm), 4)
        id_p = 2
        for bi, t in adds:
            ta = params_of(pvn.of_operand(b, t.args[1]), b.id)
            ra = params_of(pvn.of_operand(b, t.args[0]), b.id) - {1}
            fl = field_names(pv.of_operand(b, t.args[0]), "Builder")
            # the record is the one found (or created) under the key `id` in self.<plural>: the keyed lookup in the receiver chain decides
            lk = [c for c in receiver_calls(b, pvn, t.args[0]) if c.callee.method in ("entry", "get_mut", "get") and "HashMap" in ((c.callee.def_args or "") + (c.callee.name or "")) and len(c.args) >= 2]
            if lk:
                ra = params_of(pvn.of_operand(b, lk[-1].args[1]), b.id)
                fl = field_names(pv.of_operand(b, lk[-1].args[0]), "Builder")
            ck.ob("PAIR", "annotate_%s/record-args" % stem, ta == {term_p} and ra == {id_p} and plural in fl, "the record looked up by `%s` in self.%s gets term `%s`" % ("/".join(b.local_name(p) for p in ra) or "?", "/".join(sorted(fl & {"genes", "omim_diseases", "orpha_diseases"})) or "?", "/".join(b.local_name(p) for p in ta) or "?"), where=b.where(t.line))
        if via is not None:
            ck.ob("PAIR", "annotate_%s/record-args" % stem, via["term"] == {term_p} and via["key"] == {id_p} and plural in via["map"], "the record looked up by `%s` in self.%s gets term `%s` (through %s)" % ("/".join(b.local_name(p) for p in via["key"]) or "?", "/".join(sorted(via["map"])) or "?", "/".join(b.local_name(p) for p in via["term"]) or "?", via["helper"].short), where=b.where(via["site"][1].line))
        for bi, t in links:
            a1 = params_of(pvn.of_operand(b, t.args[1]), b.id)
            a2 = params_of(pvn.of_operand(b, t.args[2]), b.id)
            ck.ob("PAIR", "annotate_%s/propagate-args" % stem, a1 == {term_p} and a2 == {id_p}, "propagation is called with (`%s`, `%s`)" % ("/".join(b.local_name(p) for p in a1), "/".join(b.local_name(p) for p in a2)), where=b.where(t.line))

    # ------------------------------------------------------------------ DOM/SELECT: the early exit
    shape_of = {}
    for K, (stem, plural, rec) in sorted(KINDS.items()):
        ab = prog.body(TI + "add_" + stem)
        if ab is not None:
            pol, ct = bool_polarity(ab, pvn, lambda c: c.method == "insert" and "HashSet" in (c.def_args or ""))
            if pol is None:
                ck.undecided("DOM", "add_%s/flag" % stem, "returned flag is not the set insert's result", where=ab.where())
            else:
                recv = field_names(pvn.of_operand(ab, ct.args[0]), "HpoTermInternal")
                ck.ob("DOM", "add_%s/flag" % stem, pol == 1 and recv == {plural}, "HpoTermInternal::add_%s returns %s`self.%s.insert(id)`" % (stem, "" if pol == 1 else "the NEGATION of ", "/".join(sorted(recv))), where=ab.where())
        lb = prog.body(B + "link_%s_term" % stem)
        if lb is None:
            ck.undecided("DOM", "link_%s_term/propagation" % stem, "private helper not found")
            continue
        adds = [(bi, t) for bi, t in lb.calls() if t.callee.res == TI + "add_" + stem]
        if adds:
            shape_of[stem] = (lb, 2)
            link_shape(ck, prog, pv, pvn, stem, K, lb, lb, 2, 3, adds, direct=True)
            continue
        # delegated form: link_K_term is a thin caller of ONE private helper H(self, term_id, .., step) where `step` is a closure built here
        # that performs `term.add_K(id)`: the shape rules are decided on H, with the closure parameter in the role of the record id
        dg = link_delegate(prog, pv, pvn, lb, TI + "add_" + stem)
        if dg is None:
            if (TI + "add_" + stem) in prog.reachable_bodies([lb.id]) - {lb.id}:
                ck.undecided("DOM", "link_%s_term/links" % stem, "link_%s_term reaches HpoTermInternal::add_%s only through a helper / closure whose shape is not recognised" % (stem, stem), where=lb.where())
            else:
                ck.ob("DOM", "link_%s_term/links" % stem, False, "link_%s_term does not link the %s to the term itself" % (stem, K), where=lb.where())
            continue
        hb, term_p, id_p, hadds, step_ok, step_msg = dg
        shape_of[stem] = (hb, term_p)
        ck.ob("DOM", "link_%s_term/step" % stem, step_ok, "link_%s_term hands %s the step %s" % (stem, hb.short, step_msg), where=lb.where())
        link_shape(ck, prog, pv, pvn, stem, K, lb, hb, term_p, id_p, hadds, direct=False)

    # the term a record is linked to is looked up with the CHECKED accessor: an id that is not a term of this ontology is an error
    # (the byte decoders rely on it: add_K_from_bytes hands over ids read from the input without validating them first)
    how = {}
    for K, (stem, plural, rec) in sorted(KINDS.items()):
        lb = prog.body(B + "link_%s_term" % stem)
        if lb is None:
            continue
        hb_, tp_ = shape_of.get(stem, (lb, 2))
        lk = set()
        keyed = []
        for bi, t in hb_.calls():
            r = t.callee.res or ""
            if r.startswith("ontology::termarena::Arena::") and r.rsplit("::", 1)[-1] in ("get", "get_mut", "get_unchecked", "get_unchecked_mut") and len(t.args) == 2:
                if params_of(pvn.of_operand(hb_, t.args[1]), hb_.id) & {tp_}:
                    keyed.append((bi, r.rsplit("::", 1)[-1]))
        for bi, nm_ in keyed:
            # an unchecked access AFTER a checked lookup of the same id (the error was returned in between) is a re-borrow, not the lookup
            if "unchecked" in nm_ and any("unchecked" not in n2 and b2 != bi and hb_.dominates(b2, bi) for b2, n2 in keyed):
                continue
            lk.add(nm_)
        how[stem] = lk
        if not lk:
            ck.undecided("DOM", "link_%s_term/checked-lookup" % stem, "lookup of the term by `term_id` not recognised", where=lb.where())
        else:
            bad = sorted(m for m in lk if "unchecked" in m)
            ck.ob("DOM", "link_%s_term/checked-lookup" % stem, not bad, "link_%s_term looks the term up with %s%s" % (stem, "/".join(sorted(lk)), "" if not bad else ": an id that is not in the ontology silently resolves to the arena's placeholder term instead of being reported (the record then lists a term that does not exist)"), where=lb.where())
    if len(how) == 3 and all(how.values()):
        same = len({frozenset(v) for v in how.values()}) == 1
        ck.ob("DOM", "link_K_term/siblings-agree", same, "the three link_K_term functions look the term up %s" % ("the same way" if same else "differently: %s" % {k: sorted(v) for k, v in how.items()}))

    check_complete_iteration(ck, "DOM", prog, [B + "link_%s_term" % v[0] for v in KINDS.values()] + [B + ("add_genes_from_bytes" if k == "Gene" else "add_%s_from_bytes" % v[0]) for k, v in KINDS.items()], "the ancestors / the decoded records' terms")

    for K, (stem, plural, rec) in sorted(KINDS.items()):
        db_ = prog.body(B + ("add_genes_from_bytes" if K == "Gene" else "add_%s_from_bytes" % stem))
        if db_ is not None:
            steps_ = [("propagate every term of a decoded record", lambda t: bool(re.search(r"::link_\w+_term$", t.callee.res or ""))), ("store every decoded record", lambda t: t.callee.method == "insert" and "HashMap" in (t.callee.def_args or ""))]
            # a decoder that stores / propagates in another spelling (records collected by a generic helper and `extend`ed into the map; the direct
            # term writer applied to a merged ancestor set): the step rule does not read that form
            from props.shared import decoder_step_alternatives
            st_alt, pr_alt = decoder_step_alternatives(prog, pv, db_, plural, stem)
            fam_db = prog.family(db_)
            has = lambda pred: any(pred(t_) for fb_ in fam_db for _, t_ in fb_.calls())
            keep_ = []
            for (lab_, pred_), alt_ in zip(steps_, (pr_alt, st_alt)):
                if not has(pred_) and alt_:
                    ck.undecided("PAIR", "required-step/%s/%s" % (db_.short, lab_), "%s performs `%s` in another form (%s): not read by the step rule" % (db_.short, lab_, alt_), where=db_.where())
                else:
                    keep_.append((lab_, pred_))
            check_required_steps(ck, "PAIR", prog, db_, keep_)
            # every record that was decoded is stored: in the loop that decodes, no way from the decode back to the loop head goes round the store
            # (`let Some(first) = terms.next() else { continue }` in front of the push drops records without terms)
            from engines import private_scope as _ps2
            for xb in [db_] + [y for y in _ps2(prog, db_) if y.id != db_.id and y.kind in ("Fn", "AssocFn")]:
                for h_, bl_ in xb.natural_loops().items():
                    decs_ = [bi for bi in bl_ if xb.blocks[bi].term.k == "call" and xb.blocks[bi].term.callee.method in ("try_from", "from_bytes", "try_into") and xb.loop_of(bi) and xb.loop_of(bi)[0] == h_]
                    if not decs_:
                        continue
                    stores_ = set()
                    for bi in bl_:
                        t_ = xb.blocks[bi].term
                        if t_.k == "call" and t_.callee.method in ("push", "insert", "extend", "or_insert", "or_insert_with") and len(t_.args) >= 2:
                            if any(a[0] == "call" and a[3] == xb.id and a[4] in decs_ for x_ in t_.args[1:] for a in pvn.of_operand(xb, x_)):
                                stores_.add(bi)
                    if not stores_:
                        continue
                    seen_, st_ = set(), [xb.blocks[decs_[0]].term.target] if xb.blocks[decs_[0]].term.target is not None else []
                    dropped = False
                    while st_:
                        x_ = st_.pop()
                        if x_ == h_:
                            dropped = True
                            break
                        if x_ in seen_ or x_ in stores_ or x_ not in bl_:
                            continue
                        seen_.add(x_)
                        st_.extend(xb.succ[x_])
                    ck.ob("PAIR", "decoder-loop/%s/%s/stores-every-record" % (db_.short, xb.short), not dropped, "%s: %s" % (xb.short, "every record decoded in the loop is stored before the next one is read" if not dropped else "a decoded record can be DROPPED: some path from the decode back to the loop head goes round the store (a `continue` / guard in front of it)"), where=xb.where(xb.blocks[decs_[0]].term.line))

    # ------------------------------------------------------------------ add_K puts a record into its map (somewhere: the Occupied arm rightly does not)
    for K, (stem, plural, rec) in sorted(KINDS.items()):
        for ab_ in prog.find(r"^ontology::builder::Builder::<.*>::add_%s$" % stem):
            stores_ = [t_ for fb_ in prog.family(ab_) for _, t_ in fb_.calls() if t_.callee.method in ("insert", "or_insert", "or_insert_with", "or_insert_with_key", "insert_entry", "or_default", "extend") and rec.rsplit("::", 1)[-1] in (t_.callee.def_args or t_.callee.name or "")]
            if not stores_:
                from engines import private_scope as _ps02
                far_ = [t_ for xb_ in _ps02(prog, ab_) for _, t_ in xb_.calls() if t_.callee.method in ("insert", "or_insert", "or_insert_with", "or_insert_with_key", "insert_entry", "or_default", "extend")]
                helpers_ = [t_ for _, t_ in ab_.calls() if t_.callee.res in prog.bodies and prog.bodies[t_.callee.res].kind in ("Fn", "AssocFn") and prog.bodies[t_.callee.res].name not in ("new", "try_new")]
                if far_ or helpers_:
                    ck.undecided("PAIR", "add_%s/stores-a-record" % stem, "add_%s stores through a helper (%s): which map receives the record is not followed" % (stem, (helpers_ or far_)[0].callee.res or (helpers_ or far_)[0].callee.method), where=ab_.where())
                    continue
            ck.ob("PAIR", "add_%s/stores-a-record" % stem, bool(stores_), "add_%s %s" % (stem, "inserts a %s record into its map" % K if stores_ else "never inserts a %s record into its map: the id it returns names no record (annotate_%s then writes through a missing entry)" % (K, stem)), where=ab_.where())
    # ------------------------------------------------------------------ PHASE: writers of the records' `hpos`
    rec_rx = r"annotations::(gene::Gene|omim_disease::OmimDisease|orpha_disease::OrphaDisease)$"
    leaf = set()
    for b in prog.production():
        if b.kind == "AssocFn" and b.impl_self and re.search(rec_rx, b.impl_self.get("adt") or "") and b.sig and re.search(r"fn\(&'?\w* ?mut ", b.sig):
            if "hpos" in codec.fields_mutated(prog, ms, b, rec_rx):
                leaf.add(b.id)
    ck.ob("PHASE", "hpos/leaf-writers", len(leaf) >= 3, "functions that write a record's direct-term list: %s" % sorted(x.split(" as ")[0].rsplit("::", 1)[-1] + "::" + x.rsplit("::", 1)[-1] for x in leaf))

    def calls_leaf(b):
        for fb in prog.family(b):
            for bi, t in fb.calls():
                if t.callee.res in leaf:
                    return True
                if t.callee.res is None and t.callee.trait == "annotations::disease::Disease" and t.callee.method == "add_term":
                    return True
        return False
    for K, (stem, plural, rec) in sorted(KINDS.items()):
        lb = prog.body(B + "link_%s_term" % stem)
        if lb is None:
            continue
        reach = prog.reachable_bodies([lb.id])
        bad = sorted(x for x in reach if x in leaf or (x in prog.bodies and prog.bodies[x].kind in ("Fn", "AssocFn") and calls_leaf(prog.bodies[x]) and x not in leaf))
        ck.ob("PHASE", "hpos/not-from-propagation/" + stem, not bad, "nothing reachable from link_%s_term writes a record's direct-term list" % stem if not bad else "the propagation link_%s_term reaches %s: records become transitive" % (stem, bad[0].rsplit("::", 1)[-1]), where=lb.where())
    allowed = re.compile(r"(::annotate_(gene|omim_disease|orpha_disease)$|TryFrom<&\[u8\]>>::try_from$|Disease::from_bytes$|::to_hpo_set$)")
    writers = []
    for b in prog.production():
        if b.kind in ("Fn", "AssocFn") and b.id not in leaf and calls_leaf(b):
            writers.append(b)
    # a private helper that does the writing for its callers (`add_direct_term(&mut self.omim_diseases, ..)`) is judged by who calls it
    def lifted(b, depth=3):
        if allowed.search(b.id):
            return []
        cs = None
        if depth and b.kind == "AssocFn" and b.impl_trait and not b.impl_trait.startswith(("std::", "core::", "alloc::")) and not b.exported:
            # a method of a crate trait implemented per kind (`<GeneId as AnnotationKey>::add_direct_term`), called through the type parameter
            cs = [x for x in prog.production() for _, t_ in x.calls() if t_.callee.res is None and t_.callee.method == b.name and (t_.callee.trait or "") == b.impl_trait]
            cs += [cb_ for cb_, _, _ in prog.callers_of(b.id)]
        elif depth and b.kind in ("Fn", "AssocFn") and not (b.exported or b.reachable or b.impl_trait):
            cs = [cb_ for cb_, _, _ in prog.callers_of(b.id)]
        if cs is not None:
            roots = []
            for cb_ in cs:
                while cb_.kind == "Closure" and prog.bodies.get(cb_.id.rsplit("::{closure", 1)[0]) is not None:
                    cb_ = prog.bodies[cb_.id.rsplit("::{closure", 1)[0]]
                roots.append(cb_)
            if roots:
                out = []
                for r_ in roots:
                    out += lifted(r_, depth - 1)
                return out
        return [b]
    stray = []
    for b in writers:
        for x in lifted(b):
            if x not in stray:
                stray.append(x)
    for b in list(stray):
        # a method of the same impl that an annotate_K hands its work to (`annotate_gene` -> a new bulk `annotate_gene_terms`) and that propagates
        # every term it records through link_K_term is annotate_K's own pairing under another name: the who-may-write rule is about writers
        # that record WITHOUT linking
        hands = [cb_ for cb_, _, _ in prog.callers_of(b.id) if allowed.search(cb_.id) and cb_.impl_self == b.impl_self]
        if hands:
            stems_ = {st_ for K_, (st_, _, _) in KINDS.items() if any(h_.id.endswith("::annotate_" + st_) for h_ in hands)}
            links_ = {st_ for st_ in stems_ if any(t_.callee.res == B + "link_%s_term" % st_ for fb_ in prog.family(b) for _, t_ in fb_.calls())}
            if stems_ and links_ == stems_:
                stray.remove(b)
                ck.ob("PHASE", "hpos/writer/" + b.short, True, "%s records direct terms and propagates them through link_%s_term; %s hands its work to it" % (b.short, sorted(stems_)[0], hands[0].short), where=b.where())
    for b in stray:
        ck.violation("PHASE", "hpos/writer/" + b.short, "%s writes a record's direct-term list (allowed: annotate_K and the record decoders)" % b.short, where=b.where())
    ck.ob("PHASE", "hpos/writers", not stray, "callers of the record list writers: %s" % sorted(b.short for b in writers))

    # ---- accessors: a method named after a field returns that field, not a sibling of the same type
    ck.rule("GETTER", "an accessor `f()` / `f_mut()` of a struct with a field `f` (or its documented alias) derives its result from that field (DESIGN 3.9)")
    from engines import check_getters
    check_getters(ck, "GETTER", prog, r"^src/annotations/(gene|omim_disease|orpha_disease)\.rs$", floor=5)

    # ---- constructors: a field named like a parameter is initialised from that parameter, not from a sibling of the same type
    ck.rule("CTOR", "in a struct literal, the field `f` of a function with a parameter `f` derives from that parameter (DESIGN 3.9)")
    from engines import check_ctors
    check_ctors(ck, "CTOR", prog, r"^src/annotations/", floor=8)
    # the gene / OMIM / ORPHA variants of one operation: none does something its siblings do not
    ck.rule("KSIB", "in a group of >= 3 kind variants of one operation, no member alone has an extra selecting / truncating / error-swallowing / text-changing step or calls a crate function no sibling calls")
    from engines import check_kind_siblings
    check_kind_siblings(ck, "KSIB", prog, r"^src/ontology/builder\.rs$|^src/term/internal\.rs$", floor=1)
