"""C04 - built-in term similarities (clauses: GUARD, DISPATCH, SELECT, KIND)"""
import re
import absint
from engines import float_div_sites, classify_selection, enum_arms, norm_name, kind_elements, kind_of_callee, KINDS, positive_edges
from prov import params_of
from prov import Prov, field_names
from expr import Extract, S, C, F, add, sub, mul, div, show, unknowns
from expr import equal as expr_equal

CLAIM = ("(IDENT) in GraphIc, Jc and Mutation - documented to score 1 for a term compared with itself - the identity test on the two terms is the "
         "first decision: its true edge returns the constant 1 and every other result is produced only after the test failed; "
         "(GUARD) every float division and ln in the built-in similarity code (similarity/defaults.rs) has a divisor/argument that a sign/zero "
         "abstract interpretation proves non-zero (positive for ln) at that point, so no NaN/infinity source exists (one named exemption: Jc); "
         "(DISPATCH) the arms of `Builtins::calculate`, `InformationContent::get_kind` and `Mutation::calculate` are not cross-wired; "
         "(SELECT) Resnik's fold selects the maximum starting from a non-negative constant; (KIND) the three Mutation helpers read only their own annotation kind, "
         "and every get_kind / Resnik::new / Lin::new inside a measure receives the measure's own `kind`; (FIELD) Resnik reduces over the INCLUSIVE common ancestors "
         "of (a, b), GraphIc's numerator over all_common_ancestors and its denominator over all_union_ancestors of (a, b); (FORMULA) the non-constant result of Lin, Jc, "
         "Relevance, InformationCoefficient, GraphIc, Distance and the Mutation helpers, extracted as an expression over its leaves, is algebraically equal (as a "
         "quotient of polynomials over Q, exp opaque) to the documented formula.")
NOT_DECIDED = ("symmetry, floating-point rounding of the formulas, the values of the leaves (sums and maxima over runtime sets) and the '=1 on identical terms' cases. "
               "Observation, not armed: HpoTerm::all_union_ancestors / all_union_ancestor_ids are documented as including the two terms but return the plain union of "
               "their ancestor sets (their doctests pin that); GraphIc therefore sums its numerator over an inclusive and its denominator over an exclusive set, as the "
               "reference implementation PyHPO does, and the pinned literal scores depend on it.")

FILE = "src/similarity/defaults.rs"
EXEMPT_DIV = {
    r"<similarity::defaults::Jc as similarity::Similarity>::calculate$": "needs the relational fact resnik <= min(ic1, ic2) (IC is monotone along is_a), which a sign domain cannot express; the divisor is ic1+ic2-2*resnik+1 >= 1 under it",
}


def axioms(c):
    n = c.name
    if re.search(r"InformationContent::(get_kind|gene|omim_disease|orpha_disease)$", n):
        return absint.NN
    if re.search(r"<similarity::defaults::Resnik as similarity::Similarity>::calculate$", n):
        return absint.NN
    return None


def run(ck, prog, ctx):
    ck.rule("IDENT", "identity shortcut is the first decision and returns 1 (must-pass-through, DESIGN 3.6)")
    # no truncating adaptor (skip / take / step_by ..) in the iterator pipelines of these functions: every element takes part
    from engines import check_complete_iteration as _cci_all
    _cci_all(ck, "KIND", prog, [b_ for b_ in sorted(prog.production(), key=lambda z: z.id) if re.search(r"^src/similarity/defaults\.rs$", b_.file or "") and b_.kind in ("Fn", "AssocFn") and not b_.test
                               and any(t_.callee.trait == "std::iter::Iterator" for fb_ in prog.family(b_) for _, t_ in fb_.calls())], "the ancestors / annotations it iterates")
    ck.rule("GUARD", "divisor / ln argument proven NonZero / Pos by forward abstract interpretation with SwitchInt edge refinement (DESIGN 3.5)")
    ck.rule("DISPATCH", "in the region dominated by the arm of variant V no callee/field named after another variant V' (DESIGN 3.11)")
    ck.rule("SELECT", "direction of a two-way selection from (comparison op, operand returned on the true edge) (DESIGN 3.10)")
    ck.rule("KIND", "single-kind bodies contain no element of another annotation kind (DESIGN 3.3 K1)")
    ck.rule("CTORS", "a similarity type with an argument-less new() and a Default impl builds the same value both ways, field by field (constants followed through one delegating constructor)")
    from engines import check_ctor_agreement
    check_ctor_agreement(ck, "CTORS", prog, r"^src/similarity")
    # ---- the maximum information content over the common ancestors starts from 0 (ICs are never negative; 0 is the documented result when there
    # is no informative common ancestor).  Any other seed takes part in the maximum: `fold(1.0, max)` never answers below 1.
    for fb4 in sorted(prog.production(), key=lambda z: z.id):
        if not (fb4.file or "").endswith("similarity/defaults.rs") or fb4.test:
            continue
        for bi4, t4 in fb4.calls():
            if t4.callee.method == "fold" and t4.callee.trait == "std::iter::Iterator" and len(t4.args) == 3 and t4.args[1].kind == "const" and t4.args[1].float_value() is not None:
                cb4 = prog.bodies.get(Prov(prog, inline=False).closure_of_operand(fb4, t4.args[2]) or "")
                picks_max = cb4 is not None and (any(st_.k == "assign" and st_.rv["k"] == "bin" and st_.rv["op"] in ("Gt", "Lt", "Ge", "Le") for _, st_ in cb4.stmts()) or any(ct_.callee.method in ("max", "min") for _, ct_ in cb4.calls()))
                if picks_max:
                    ck.ob("SELECT", "max-seed/%s" % fb4.short, t4.args[1].float_value() == 0.0, "%s folds a maximum / minimum starting from %s%s" % (fb4.short, t4.args[1].float_value(), "" if t4.args[1].float_value() == 0.0 else ": the seed takes part in the result (expected 0.0, the value for `no informative common ancestor`)"), where=fb4.where(t4.line))
    ai = absint.Interp(prog, axioms)
    pv = Prov(prog)
    pv_sel = Prov(prog, bind_closures=False, inline=False)
    ck.assume("axiom: information-content values and Resnik::calculate are >= 0 (C03's GUARD/SELECT clauses establish it structurally)")

    # ------------------------------------------------------------------ GUARD
    n_div = 0
    for b in sorted(prog.production(), key=lambda b: b.id):
        if b.file != FILE or b.kind not in ("Fn", "AssocFn", "Closure"):
            continue
        cnt = {}
        for site in float_div_sites(b):
            owner = b.root if b.kind == "Closure" else b.id
            oshort = prog.bodies[owner].short if owner in prog.bodies else b.short
            base = "%s/%s" % (oshort, site["kind"])
            i = cnt.get(base, 0)
            cnt[base] = i + 1
            key = "%s/%d" % (base, i)
            if site["kind"] == "div":
                n_div += 1
                c = ai.class_at(b, site["pos"], site["den"])
                ok = c in (absint.P, absint.NZ) or c is None
                if not ok:
                    # second opinion, path by path (a guard spelled `x == 0 && y == 0` leaves, on each path, one addend positive)
                    cp = ai.class_at_pathwise(b, site["pos"], site["den"])
                    if cp in (absint.P, absint.NZ):
                        c, ok = cp, True
                if not ok and c == absint.T:
                    # the divisor is computed from the result of a PRIVATE helper whose sign the interpreter cannot summarise (a `fold` / `sum` over a
                    # closure): the reviewed tree had a public measure with a stated range there
                    priv = [a for a in Prov(prog, inline=False).of_operand(b, site["den"]) if a[0] == "call" and a[1] in prog.bodies and prog.bodies[a[1]].file == FILE and not (prog.bodies[a[1]].exported or prog.bodies[a[1]].reachable or prog.bodies[a[1]].impl_trait)]
                    if priv:
                        ck.undecided("GUARD", key, "%s divides by a value computed from the private helper %s, whose range is not known to the sign analysis" % (oshort, prog.bodies[priv[0][1]].short), where=b.where(site["line"]))
                        continue
                if not ok:
                    ex = [r for rx, r in EXEMPT_DIV.items() if re.search(rx, owner)]
                    if ex:
                        ck.ob("GUARD", key, True, "exempted division in %s (divisor class %s): %s" % (oshort, c, ex[0]), where=b.where(site["line"]))
                        ck.assume("GUARD exemption %s: %s" % (oshort, ex[0]))
                        continue
                ck.ob("GUARD", key, ok, ("%s: float division by %r is %s" % (oshort, site["den"], "proven non-zero (class %s)" % c if ok else "not guarded: the divisor can be 0 (class %s), so the score can be NaN or infinite" % c)), where=b.where(site["line"]))
            else:
                c = ai.class_at(b, site["pos"], site["arg"])
                ok = c == absint.P or c is None
                ck.ob("GUARD", key, ok, "%s: ln argument %s" % (oshort, "proven positive" if ok else "not proven positive (class %s)" % c), where=b.where(site["line"]))
    ck.floor("GUARD", "float divisions in similarity/defaults.rs", n_div, 3)

    # ------------------------------------------------------------------ IDENT: identical terms score 1
    pvl = Prov(prog, inline=False, bind_closures=False)
    for name in ("GraphIc", "Jc", "Mutation"):
        b = prog.body("<similarity::defaults::%s as similarity::Similarity>::calculate" % name)
        if not ck.anchor("IDENT", "impl Similarity for " + name, b):
            continue
        tests = []
        for bi, t in b.calls():
            c = t.callee
            if c.trait == "std::cmp::PartialEq" and c.method in ("eq", "ne") and len(t.args) == 2 and re.search(r"HpoTermId|HpoTerm", c.def_args or ""):
                p0 = params_of(pv.of_operand(b, t.args[0]), b.id)
                p1 = params_of(pv.of_operand(b, t.args[1]), b.id)
                if (p0, p1) in (({2}, {3}), ({3}, {2})):
                    tests.append((bi, t))
        if not tests:
            ck.undecided("IDENT", name + "/test", "%s has no identity shortcut (the value for identical terms is then a property of the formula)" % name, where=b.where())
            continue
        bi, t = tests[0]
        pos = positive_edges(b, pvl, bi)
        if t.callee.method == "ne":
            # `a != b`: the terms are identical on the edges where the test is FALSE
            sw_ = {e_[0] for e_ in pos}
            pos = [(sb_, tg_) for sb_ in sorted(sw_) for tg_ in b.succ[sb_] if (sb_, tg_) not in pos]
        if not pos:
            ck.undecided("IDENT", name + "/test", "branch on the identity test not recognised", where=b.where(t.line))
            continue
        sbi, tg = pos[0]
        ident_region = b.region((sbi, tg))
        vals = set()
        for r in ident_region:
            for st in b.blocks[r].stmts:
                if st.k == "assign" and st.place.local == 0 and st.place.is_local():
                    vals.add(st.rv["op"].float_value() if st.rv["k"] == "use" and st.rv["op"].kind == "const" else "non-constant")
        ck.ob("IDENT", name + "/value", vals == {1.0}, "%s returns %s for identical terms (documented: 1)" % (name, sorted(map(str, vals)) or "nothing"), where=b.where(t.line))
        neg = [(sbi, o) for o in b.blocks[sbi].term.successors() if o != tg]
        early = []
        for r in sorted(b.reach):
            if r in ident_region:
                continue
            blk = b.blocks[r]
            defs0 = [st for st in blk.stmts if st.k == "assign" and st.place.local == 0 and st.place.is_local()]
            if blk.term.k == "call" and blk.term.dest.is_local() and blk.term.dest.local == 0:
                defs0.append(blk.term)
            if defs0 and not any(b.edge_dominates(e, r) for e in neg):
                early.append((r, defs0[0]))
        ck.ob("IDENT", name + "/first-decision", not early,
              ("%s produces every other result only after the identity test failed" % name) if not early else
              ("%s can return a result (line %s) before the identity test: identical terms are not guaranteed to score 1" % (name, early[0][1].line)), where=b.where(t.line))

    # ------------------------------------------------------------------ DISPATCH
    def dispatch(body, enum_path, label_of_call, min_arms, what, soft=False):
        arms_l = enum_arms(prog, body, enum_path)
        total = 0
        for sw in arms_l:
            for vname, edge in sorted(sw["arms"].items()):
                region = body.region(edge)
                labels = []
                for bi in region:
                    t = body.blocks[bi].term
                    if t.k == "call":
                        for lab in label_of_call(t.callee):
                            labels.append((lab, t))
                names = {norm_name(l) for l, _ in labels}
                key = "%s/%s" % (what, vname)
                total += 1
                if not labels:
                    ck.undecided("DISPATCH", key, "arm %s of %s: no callee named after a variant (renamed helper?)" % (vname, what), where=body.where(sw["line"]))
                    continue
                wrong = [(l, t) for l, t in labels if norm_name(l) != norm_name(vname)]
                right = [(l, t) for l, t in labels if norm_name(l) == norm_name(vname)]
                if wrong and not right:
                    l, t = wrong[0]
                    ck.violation("DISPATCH", key, "arm %s of %s dispatches to %s" % (vname, what, t.callee.def_args), where=body.where(t.line))
                else:
                    ck.ob("DISPATCH", key, True, "arm %s of %s dispatches to %s" % (vname, what, right[0][1].callee.def_args), where=body.where(right[0][1].line))
        ck.floor("DISPATCH", what + " arms", total, min_arms, soft=soft)

    bt = prog.body("<similarity::Builtins as similarity::Similarity>::calculate")
    if ck.anchor("DISPATCH", "impl Similarity for Builtins", bt):
        variants = [v["name"] for v in prog.adts["similarity::Builtins"]["variants"]]

        def lab_builtin(c):
            n = c.def_args or ""
            out = []
            for v in variants:
                if re.search(r"similarity::defaults::%s\b" % v, n):
                    out.append(v)
            return out
        dispatch(bt, "similarity::Builtins", lab_builtin, 8, "Builtins::calculate")
    gk = prog.body("term::information_content::InformationContent::get_kind")
    if ck.anchor("DISPATCH", "InformationContent::get_kind", gk):
        dispatch(gk, "term::information_content::InformationContentKind", lambda c: sorted(kind_of_callee(c)), 3, "InformationContent::get_kind", soft=True)
    mc = prog.body("<similarity::defaults::Mutation as similarity::Similarity>::calculate")
    if ck.anchor("DISPATCH", "impl Similarity for Mutation", mc):
        dispatch(mc, "term::information_content::InformationContentKind", lambda c: sorted(kind_of_callee(c)), 3, "Mutation::calculate")

    # ------------------------------------------------------------------ SELECT: Resnik
    rs = prog.body("<similarity::defaults::Resnik as similarity::Similarity>::calculate")
    if ck.anchor("SELECT", "impl Similarity for Resnik", rs):
        done = False
        for bi, t in rs.calls():
            if t.callee.method in ("fold", "reduce", "max_by", "min_by") and t.callee.trait == "std::iter::Iterator":
                cid = None
                for a in t.args[1:]:
                    cid = pv.closure_of_operand(rs, a) or cid
                if cid is None or cid not in prog.bodies:
                    continue
                cb = prog.bodies[cid]
                sel = [s for s in classify_selection(cb, pv_sel) if s["kind"]]
                if not sel:
                    ck.undecided("SELECT", "Resnik/fold", "selection closure of Resnik not recognised", where=rs.where(t.line))
                    continue
                done = True
                k = sel[0]["kind"]
                ck.ob("SELECT", "Resnik/fold", k == "max", "Resnik reduces the common ancestors' IC with a %s selection (%s)" % (k, sel[0]["detail"]), where=cb.where(sel[0]["line"]))
                if t.callee.method == "fold":
                    fv = t.args[1].float_value() if t.args[1].kind == "const" else None
                    ck.ob("SELECT", "Resnik/init", fv is not None and fv >= 0, "Resnik's fold starts from %s (must be a non-negative constant)" % (t.args[1],), where=rs.where(t.line))
            elif t.callee.method in ("max", "min") and t.callee.trait == "std::iter::Iterator":
                done = True
                ck.ob("SELECT", "Resnik/fold", t.callee.method == "max", "Resnik reduces with Iterator::%s" % t.callee.method, where=rs.where(t.line))
        if not done:
            ck.undecided("SELECT", "Resnik/fold", "no reduction recognised in Resnik::calculate", where=rs.where())

    # ------------------------------------------------------------------ FIELD: candidate sets of the ancestor-based measures
    ck.rule("FIELD", "the ancestor set a measure reduces over is the INCLUSIVE one of both terms (all_common_ancestors / all_union_ancestors): the terms themselves are candidates (DESIGN 3.9)")
    ANC = r"HpoTerm::<'.*>::((all_)?(common|union)_ancestor(s|_ids))$"
    pv_ni = Prov(prog, inline=False)  # the accessor the measure itself names (what that accessor returns is C11/C12 territory)

    def anc_calls(atoms, body):
        out = {}
        for a in atoms:
            if a[0] == "call":
                m = re.search(ANC, a[1])
                if m:
                    out[(a[3], a[4])] = m.group(1)
        return out

    def anc_args(body_id, bi):
        fb = prog.bodies[body_id]
        t = fb.blocks[bi].term
        root = prog.bodies[fb.root] if fb.kind == "Closure" and fb.root in prog.bodies else fb
        return [params_of(pv.of_operand(fb, a), root.id) for a in t.args[:2]]

    if rs is not None:
        cands = {}
        for bi, t in rs.calls():
            if t.callee.trait == "std::iter::Iterator" and t.callee.method in ("fold", "reduce", "max_by", "min_by", "max", "min"):
                cands.update(anc_calls(pv_ni.of_operand(rs, t.args[0]), rs))
        if not cands:
            ck.undecided("FIELD", "Resnik/candidates", "the set Resnik reduces over is not recognised", where=rs.where())
        else:
            names = sorted(set(cands.values()))
            ck.ob("FIELD", "Resnik/candidates", all(n.startswith("all_common_ancestor") for n in names), "Resnik takes the most informative term among %s%s" % (names, "" if all(n.startswith("all_common_ancestor") for n in names) else " - expected the INCLUSIVE common ancestors: for an ancestor/descendant pair (or a term with itself) the most informative common ancestor is one of the two terms"), where=rs.where())
            for (bid, bi), n in sorted(cands.items()):
                ar = anc_args(bid, bi)
                ck.ob("FIELD", "Resnik/candidates/args", sorted(map(sorted, ar)) == [[2], [3]], "%s is called on (%s, %s) (expected the two terms a and b)" % (n, sorted(ar[0]), sorted(ar[1])), where=rs.where())
    gi = prog.body("<similarity::defaults::GraphIc as similarity::Similarity>::calculate")
    if ck.anchor("FIELD", "impl Similarity for GraphIc", gi):
        divs = [x for x in float_div_sites(gi) if x["kind"] == "div"]
        if len(divs) != 1:
            ck.undecided("FIELD", "GraphIc/ratio", "expected one division in GraphIc::calculate, found %d" % len(divs), where=gi.where())
        else:
            d = divs[0]
            num = anc_calls(pv_ni.of_operand(gi, d["num"]), gi)
            den = anc_calls(pv_ni.of_operand(gi, d["den"]), gi)
            nn, dn = sorted(set(num.values())), sorted(set(den.values()))
            def private_source(op):
                """the summed collection comes from a crate-private helper / iterator (a merge walk over the two ancestor lists, ...)"""
                for a in pv_ni.of_operand(gi, op):
                    if a[0] == "call" and a[1] in prog.bodies and not (prog.bodies[a[1]].exported or prog.bodies[a[1]].reachable) and prog.bodies[a[1]].file != FILE:
                        return prog.bodies[a[1]].short
                return None
            if not nn and not dn and (private_source(d["num"]) or private_source(d["den"])):
                ck.undecided("FIELD", "GraphIc/numerator", "GraphIc sums over what the crate-private %s yields: which ancestor sets that walks is not read by this rule" % (private_source(d["num"]) or private_source(d["den"])), where=gi.where(d["line"]))
                nn = dn = None
            if nn is not None and not nn and not dn:
                # neither sum is taken over a set an ancestor query hands out (a merge pass over the two sorted ancestor lists, an explicit loop):
                # which ids each accumulator sees is not read by this rule
                ck.undecided("FIELD", "GraphIc/numerator", "GraphIc's sums are not taken over the result of an ancestor query (a hand-written walk?): which ids enter the numerator is not decided", where=gi.where(d["line"]) if "line" in d else gi.where())
                ck.undecided("FIELD", "GraphIc/denominator", "see GraphIc/numerator", where=gi.where())
                nn = dn = None
            if nn is not None:
                ck.ob("FIELD", "GraphIc/numerator", bool(nn) and all(n.startswith("all_common_ancestor") for n in nn), "GraphIc's numerator sums the IC over %s (expected the inclusive common ancestors)" % (nn or "?"), where=gi.where(d["line"]))
            if dn is not None:
                ck.ob("FIELD", "GraphIc/denominator", bool(dn) and all(n.startswith("all_union_ancestor") for n in dn), "GraphIc's denominator sums the IC over %s (expected the inclusive union of ancestors)" % (dn or "?"), where=gi.where(d["line"]))
            for (bid, bi), n in sorted(list(num.items()) + list(den.items())):
                ar = anc_args(bid, bi)
                ck.ob("FIELD", "GraphIc/args/" + n, sorted(map(sorted, ar)) == [[2], [3]], "%s is called on (%s, %s) (expected the two terms a and b)" % (n, sorted(ar[0]), sorted(ar[1])), where=gi.where())

    # ------------------------------------------------------------------ FORMULA: the returned expression, as a rational function of its leaves
    ck.rule("FORMULA", "the non-constant result of each measure, extracted as an expression tree over its leaves (IC of a, IC of b, Resnik(a,b), Lin(a,b), "
                       "distance, set sizes, IC sums) and normalised to a quotient of polynomials over Q (exp/ln opaque), equals the documented formula; "
                       "algebraically equal rewrites compare equal, unrecognised leaves make the instance undecided")
    IMPL = "<similarity::defaults::%s as similarity::Similarity>::calculate"

    def leaf(ex, body, kind, obj):
        root = prog.bodies[body.root] if body.kind == "Closure" and body.root in prog.bodies else body
        if kind == "call":
            t = obj
            c = t.callee
            r = c.res or c.name or ""
            if re.search(r"InformationContent::get_kind$", r):
                src = pv.of_operand(body, t.args[0])
                ps = params_of(src, root.id)
                via = any(a[0] == "call" and a[1].endswith("::information_content") for a in src)
                if via and ps in ({2}, {3}):
                    return S("IC(a)" if ps == {2} else "IC(b)")
                return None
            m = re.search(r"<similarity::defaults::(Resnik|Lin) as similarity::Similarity>::calculate$", r)
            if m and len(t.args) == 3:
                ar = [params_of(pv.of_operand(body, a), root.id) for a in t.args[1:]]
                if sorted(map(sorted, ar)) == [[2], [3]]:
                    return S("%s(a,b)" % m.group(1))
                return S("%s(%s,%s)" % (m.group(1), sorted(ar[0]), sorted(ar[1])))
            if r.endswith("similarity::usize_to_f32") and len(t.args) == 1:
                return ex.operand(body, t.args[0])
            if c.method == "len" and len(t.args) == 1:
                at = pv_ni.of_operand(body, t.args[0])
                ops = {a[1].rsplit("::", 1)[-1] for a in at if a[0] == "call" and a[1].rsplit("::", 1)[-1] in ("bitand", "bitor")}
                if ops == {"bitand"}:
                    return S("|A&B|")
                if ops == {"bitor"}:
                    return S("|A|B|")
                return None
            if c.trait == "std::iter::Iterator" and c.method == "sum" and len(t.args) == 1:
                names = set(anc_calls(pv_ni.of_operand(body, t.args[0]), body).values())
                gk = [x for fb in prog.family(body) for _, x in fb.calls() if re.search(r"InformationContent::get_kind$", x.callee.res or "")]
                if len(names) == 1 and gk:
                    return S("sumIC(%s)" % next(iter(names)))
                return None
            # a crate-local helper (e.g. `term_ic(term, kind)`, `summed_ic(terms, kind)`): classified by the inlined provenance of
            # its result - an IC lookup of exactly one of the two terms, or a sum of IC lookups over one ancestor accessor
            tgh = prog.bodies.get(c.res) if c.res else None
            if tgh is not None and tgh.file == FILE and t.dest is not None and t.dest.is_local():
                at = pv.of_local(body, t.dest.local)
                names = {a[1].rsplit("::", 1)[-1] for a in at if a[0] == "call"}
                arith = [a for a in at if a[0] == "op" and a[1] in ("Add", "Sub", "Mul", "Div")]
                if "get_kind" in names and "information_content" in names and not arith:
                    if "sum" in names:
                        anc = {re.search(ANC, a[1]).group(1) for a in at if a[0] == "call" and re.search(ANC, a[1]) and (a[3].startswith("similarity::defaults") or a[3].startswith("<similarity::defaults"))}
                        if len(anc) == 1:
                            return S("sumIC(%s)" % next(iter(anc)))
                    else:
                        ps = params_of(at, root.id) & {2, 3}
                        if len(ps) == 1:
                            return S("IC(a)" if ps == {2} else "IC(b)")
        if kind == "param" and body.kind == "Closure" and obj[0] == 2:
            return S("n")
        return None

    EX = Extract(prog, pv, leaf)
    Ra, La, ICa, ICb = S("Resnik(a,b)"), S("Lin(a,b)"), S("IC(a)"), S("IC(b)")
    one, two = C(1), C(2)
    FORMULAS = [
        ("Lin", IMPL % "Lin", div(mul(two, Ra), add(ICa, ICb)), "2*Resnik/(IC(a)+IC(b))"),
        ("Jc", IMPL % "Jc", div(one, add(sub(add(ICa, ICb), mul(two, Ra)), one)), "1/(IC(a)+IC(b)-2*Resnik+1)"),
        ("Relevance", IMPL % "Relevance", mul(La, sub(one, F("exp", ("neg", Ra)))), "Lin*(1-exp(-Resnik))"),
        ("InformationCoefficient", IMPL % "InformationCoefficient", mul(La, sub(one, div(one, add(one, Ra)))), "Lin*(1-1/(1+Resnik))"),
        ("GraphIc", IMPL % "GraphIc", div(S("sumIC(all_common_ancestors)"), S("sumIC(all_union_ancestors)")), "sum IC(common ancestors)/sum IC(union ancestors)"),
        ("Mutation::gene_similarity", "similarity::defaults::Mutation::gene_similarity", div(S("|A&B|"), S("|A|B|")), "|genes(a) & genes(b)| / |genes(a) | genes(b)|"),
        ("Mutation::disease_similarity", "similarity::defaults::Mutation::disease_similarity", div(S("|A&B|"), S("|A|B|")), "|diseases(a) & diseases(b)| / |diseases(a) | diseases(b)|"),
    ]
    n_formula = 0
    for name, bid, want, text in FORMULAS:
        fb = prog.body(bid)
        if fb is None:
            if name.startswith("Mutation::"):
                ck.undecided("FORMULA", name, "private helper %s not found" % name)
            else:
                ck.anchor("FORMULA", "impl Similarity for " + name, fb)
            continue
        rets = []
        for kind, pos, d in pv.defs(fb).get(0, []):
            e = EX.rvalue(fb, d, 0) if kind == "assign" else EX.call(fb, d, 0)
            rets.append((d.line, e))
        nonconst = [(ln, e) for ln, e in rets if not (e[0] == "c")]
        if not nonconst:
            ck.ob("FORMULA", name, False, "%s returns only constants: the formula %s is not computed" % (name, text), where=fb.where())
            continue
        for i, (ln, e) in enumerate(nonconst):
            eq = expr_equal(e, want)
            key = name if i == 0 else "%s/%d" % (name, i)
            n_formula += 1
            if eq is None:
                ck.undecided("FORMULA", key, "%s: result expression %s has leaves that are not recognised (%s)" % (name, show(e), "; ".join(unknowns(e)[:2])), where=fb.where(ln))
            else:
                ck.ob("FORMULA", key, eq, "%s returns %s %s the documented %s" % (name, show(e), "=" if eq else "which is NOT algebraically equal to", text), where=fb.where(ln))
    dc = None
    db = prog.body(IMPL % "Distance")
    if ck.anchor("FORMULA", "impl Similarity for Distance", db):
        cl = [fb for fb in prog.family(db) if fb.kind == "Closure"]
        done = False
        for fb in cl:
            for kind, pos, d in pv.defs(fb).get(0, []):
                e = EX.rvalue(fb, d, 0) if kind == "assign" else EX.call(fb, d, 0)
                if e[0] == "c":
                    continue
                eq = expr_equal(e, div(one, add(S("n"), one)))
                done = True
                n_formula += 1
                if eq is None:
                    ck.undecided("FORMULA", "Distance", "result expression %s not recognised" % show(e), where=fb.where(d.line))
                else:
                    ck.ob("FORMULA", "Distance", eq, "Distance maps a distance of n steps to %s %s the documented 1/(n+1)" % (show(e), "=" if eq else "which is NOT"), where=fb.where(d.line))
        if not done:
            ck.undecided("FORMULA", "Distance", "the mapping from distance to score is not a closure over the distance", where=db.where())
        srcs = [t for _, t in db.calls() if re.search(r"HpoTerm::<'.*>::distance_to_term$", t.callee.res or "")]
        ok = bool(srcs) and all(sorted(map(sorted, [params_of(pv.of_operand(db, a), db.id) for a in t.args[:2]])) == [[2], [3]] for t in srcs)
        ck.ob("FORMULA", "Distance/source", ok, "Distance scores distance_to_term(a, b)" if ok else "Distance does not score distance_to_term of its two arguments", where=db.where())
    ck.floor("FORMULA", "formula instances examined (decided or undecided)", n_formula, 4)

    # ------------------------------------------------------------------ WHEN: on which inputs a measure answers with a constant instead of its formula
    ck.rule("WHEN", "the condition under which a measure returns a constant (0 for an undefined quotient, 1 for identical terms) is, as a truth table over "
                    "`same term` and `leaf == 0` (information contents and their sums are >= 0, so `x + y == 0` is `x == 0 and y == 0`, `x > 0` is `not x == 0`), "
                    "the one confirmed on the reviewed tree: everywhere else the formula decides")
    import itertools
    from engines import bool_table
    from expr import affine as _affine

    def when_atom(kind, lo, ro, body):
        # identity of the two terms
        if kind == "Eq":
            srcs = []
            for o in (lo, ro):
                at = pv_ni.of_operand(body, o)
                if any(a[0] == "call" and a[1].endswith("::id") for a in at):
                    srcs.append(frozenset(params_of(pv.of_operand(body, o), body.id)))
            if sorted(map(sorted, srcs)) == [[2], [3]]:
                return ("same",)
        # a comparison of a non-negative quantity with the constant 0
        for e_op, z_op, e_left in ((lo, ro, True), (ro, lo, False)):
            if z_op.kind == "const" and z_op.float_value() == 0.0:
                a = _affine(EX.operand(body, e_op))
                if a is None or a.get((), 0) != 0 or not a or any(v <= 0 for k_, v in a.items() if k_ != ()):
                    return None
                syms = frozenset(k_ for k_ in a if k_ != ())
                if kind == "Eq":
                    return ("allzero", syms)
                # kind is l OP r with OP in (Lt, Gt): E > 0 / 0 < E  <=> not all zero;  E < 0 / 0 > E never holds
                if (kind == "Gt") == e_left:
                    return ("pos", syms)
                return ("neg", syms)
        return None

    def atom_value(k_, z, same):
        if k_ == ("same",):
            return same
        if k_[0] == "allzero":
            return all(z[s_] for s_ in k_[1])
        if k_[0] == "pos":
            return not all(z[s_] for s_ in k_[1])
        return False
    WHEN = [
        ("Lin", IMPL % "Lin", lambda z, same: {0.0: z.get(("IC(a)",), z.get("IC(a)")) and z.get(("IC(b)",), z.get("IC(b)"))}, "0 exactly when IC(a) + IC(b) == 0"),
        ("Jc", IMPL % "Jc", lambda z, same: {1.0: same, 0.0: (not same) and (z.get(("IC(a)",), z.get("IC(a)")) or z.get(("IC(b)",), z.get("IC(b)")))}, "1 for identical terms, else 0 exactly when IC(a) == 0 or IC(b) == 0"),
        ("GraphIc", IMPL % "GraphIc", lambda z, same: {1.0: same, 0.0: (not same) and z.get(("sumIC(all_union_ancestors)",), z.get("sumIC(all_union_ancestors)"))}, "1 for identical terms, else 0 exactly when the IC sum over the union ancestors is 0"),
    ]
    for name, bid, ref, text in WHEN:
        fb = prog.body(bid)
        if fb is None:
            continue
        rows = bool_table(fb, when_atom, value_result=True)
        if rows is None:
            ck.undecided("WHEN", name, "the branches of %s are not all comparisons of IC values / IC sums with 0 or the identity test" % name, where=fb.where())
            continue
        if not any(r_[0] == "const" for asg, r_ in rows):
            # the whole value comes from a crate-local helper (`lin_score(a, b, kind)`): its guards live there
            deleg = [t for _, t in fb.calls() if t.dest is not None and t.dest.is_local() and t.dest.local == 0 and (t.callee.res or "") in prog.bodies and prog.bodies[t.callee.res].file == FILE]
            if deleg:
                ck.undecided("WHEN", name, "%s hands its whole result over to %s: where that helper answers with a constant is not compared with the reviewed convention" % (name, prog.bodies[deleg[0].callee.res].short), where=fb.where())
                continue
        keys = {k_ for asg, r_ in rows for k_ in asg}
        syms = sorted({s_ for k_ in keys if k_ != ("same",) for s_ in k_[1]}, key=str)
        need = {"Lin": ["IC(a)", "IC(b)"], "Jc": ["IC(a)", "IC(b)"], "GraphIc": ["sumIC(all_union_ancestors)"]}[name]
        all_syms = sorted(set(syms) | {(n_,) for n_ in need} if syms and isinstance(syms[0], tuple) else set(syms) | set(need), key=str)
        bad = None
        for bits in itertools.product((False, True), repeat=len(all_syms) + 1):
            same = bits[0]
            z = dict(zip(all_syms, bits[1:]))
            got = None
            for asg, r_ in rows:
                if all(atom_value(k_, z, same) == v_ for k_, v_ in asg.items()):
                    got = r_
                    break
            want = ref(z, same)
            want_c = next((c_ for c_, cond in want.items() if cond), None)
            got_c = got[1] if got is not None and got[0] == "const" else None
            if got is None or got_c != want_c:
                bad = (same, z, got_c, want_c)
                break
        ck.ob("WHEN", name, bad is None, "%s answers with a constant %s (%d-row table over %s)" % (name, text, 2 ** (len(all_syms) + 1), ["same term"] + ["%s == 0" % (s_[0] if isinstance(s_, tuple) else s_) for s_ in all_syms]) if bad is None else
              "%s: for %s%s the result is %s, but the reviewed convention is %s (%s)" % (name, "identical terms, " if bad[0] else "", ", ".join("%s %s 0" % (s_[0] if isinstance(s_, tuple) else s_, "==" if v_ else ">") for s_, v_ in bad[1].items()), "the constant %s" % bad[2] if bad[2] is not None else "the formula", "the constant %s" % bad[3] if bad[3] is not None else "the formula", text), where=fb.where())

    # ------------------------------------------------------------------ KIND: the information-content kind is the one the measure was constructed with
    n_kind = 0
    kcnt = {}
    for b in sorted(prog.production(), key=lambda b: b.id):
        if b.file != FILE or b.kind not in ("Fn", "AssocFn", "Closure"):
            continue
        root = prog.bodies[b.root] if b.kind == "Closure" and b.root in prog.bodies else b
        if not re.search(r" as similarity::Similarity>::calculate$", root.id):
            continue
        for bi, t in b.calls():
            r = t.callee.res or ""
            ka = None
            if re.search(r"InformationContent::get_kind$", r) and len(t.args) == 2:
                ka = t.args[1]
            elif re.search(r"^similarity::defaults::(Resnik|Lin|Jc|GraphIc|Relevance|InformationCoefficient|Mutation)::new$", r) and len(t.args) == 1:
                ka = t.args[0]
            else:
                # a private helper of this file that takes the kind as a parameter
                tgk = prog.bodies.get(r)
                if tgk is not None and tgk.file == FILE and tgk.kind == "Fn":
                    for i_, a_ in enumerate(t.args):
                        if i_ + 1 <= tgk.nargs and "InformationContentKind" in tgk.locals[i_ + 1]["s"]:
                            ka = a_
            if ka is None:
                continue
            n_kind += 1
            kcnt[root.short] = kcnt.get(root.short, 0) + 1
            at = pv.of_operand(b, ka)
            from_self = "kind" in field_names(at, "similarity::defaults::") or any(a[0] == "param" and a[2] == 1 and any(e[0] == "f" and e[1] == "kind" for e in a[3]) for a in at)
            consts = [a for a in at if a[0] == "const" or (a[0] == "op" and False)]
            variants = [st for _, st in b.stmts() if st.k == "assign" and st.rv["k"] == "agg" and (st.rv.get("adt") or "").endswith("InformationContentKind")]
            ck.ob("KIND", "kind-of-measure/%s/%d" % (root.short, kcnt[root.short]), from_self and not variants, "%s passes %s to %s" % (root.short, "its own `kind`" if from_self and not variants else "a kind that is not (only) the one it was constructed with", r.rsplit("::", 2)[-2] + "::" + r.rsplit("::", 1)[-1]), where=b.where(t.line))
    ck.floor("KIND", "kind arguments in the measures", n_kind, 5, soft=True)

    # ------------------------------------------------------------------ KIND K1: Mutation helpers
    n = 0
    for name, kind in (("gene_similarity", "Gene"), ("omim_disease_similarity", "Omim"), ("orpha_disease_similarity", "Orpha")):
        b = prog.body("similarity::defaults::Mutation::" + name)
        if b is None:
            continue  # private helper: dropped from the table, K2 on Mutation::calculate's arms covers it
        n += 1
        els = []
        for fb in prog.family(b):
            els += kind_elements(fb)
        foreign = [e for e in els if e[0] != kind]
        own = [e for e in els if e[0] == kind]
        if foreign:
            ck.violation("KIND", "K1/Mutation::" + name, "Mutation::%s (kind %s) uses %s element: %s" % (name, kind, foreign[0][0], foreign[0][1]), where=b.where(foreign[0][2]))
        elif not own:
            ck.undecided("KIND", "K1/Mutation::" + name, "no kind-labelled element found", where=b.where())
        else:
            ck.ob("KIND", "K1/Mutation::" + name, True, "Mutation::%s reads only %s annotations (%s)" % (name, kind, own[0][1]), where=b.where())
    if mc is not None:
        # K2 on the arms: region of arm K contains no element of another kind
        for sw in enum_arms(prog, mc, "term::information_content::InformationContentKind"):
            for vname, edge in sorted(sw["arms"].items()):
                region = mc.region(edge)
                els = [e for e in kind_elements(mc) if True]
                # restrict to region by line is imprecise; use calls in region
                bad = []
                for bi in region:
                    t = mc.blocks[bi].term
                    if t.k == "call":
                        for k in kind_of_callee(t.callee):
                            if k != vname:
                                bad.append((k, t))
                ck.ob("KIND", "K2/Mutation::calculate/" + vname, not bad, "arm %s of Mutation::calculate %s" % (vname, "uses only its own kind" if not bad else "calls %s" % bad[0][1].callee.def_args), where=mc.where(sw["line"]))

    # ---- constructors: a field named like a parameter is initialised from that parameter, not from a sibling of the same type
    ck.rule("CTOR", "in a struct literal, the field `f` of a function with a parameter `f` derives from that parameter (DESIGN 3.9)")
    # the counts that enter Jaccard / Distance go through a conversion helper that must be exact or fail
    from props.shared import check_exact_conversion
    check_exact_conversion(ck, "GUARD", prog, "similarity::usize_to_f32", "the set sizes / distances")
    from props.shared import check_conversion_range
    check_conversion_range(ck, "GUARD", prog, "similarity::usize_to_f32", 16, "set sizes and distances exceed 255 on real data (the helper's u16 bound is the reviewed one)")
    from engines import check_ctors
    check_ctors(ck, "CTOR", prog, r"^src/similarity/defaults\.rs$", floor=3)
    # the names accepted by Builtins::new select the measure of that name
    ck.rule("NAMES", "a name-to-variant table maps every accepted name to the variant it names (full name, prefix, initials)")
    from engines import check_name_table
    bn = prog.body("similarity::Builtins::new")
    if ck.anchor("NAMES", "Builtins::new", bn):
        check_name_table(ck, "NAMES", "Builtins::new", bn, r"similarity::Builtins$", floor=8)
