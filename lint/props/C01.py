"""C01 - ancestor sets are the exact closure (clauses: PAIR edge writers, PHASE cache writers, ROLE cache write, FIELD readers; WIT in the thorough tier)"""
import re
from engines import Atomic, MutSummary, RefDeriv, positive_edges, origins
from engines import check_required_steps, for_loops, check_every_element, hard_truncations
from props.shared import arena_placeholder_skips
from prov import Prov, params_of, field_names
from props import codec

CLAIM = ("(PAIR) every function that links two terms writes BOTH directions of the is_a edge on every feasible path to every return (child.parents and "
         "parent.children), the `children` write goes to the term looked up by the parent argument and receives the child id and vice versa; "
         "(PHASE) the ancestor cache `all_parents` is written only below Builder<AllTerms>::connect_all_terms, which alone performs the "
         "AllTerms -> ConnectedTerms transition, and nothing reachable from the read API writes it; (ROLE) the cache of a term is written as "
         "(closures of its parents) | (its direct parents) and the memoising helper computes a missing parent cache on the not-cached edge; "
         "(FIELD) child_of / parent_of and the pruning tests of the ancestor distance/path functions consult the CLOSURE field with the other term's id; "
         "(WIT, thorough) late edges and out-of-order builder calls do not type-check.")
NOT_DECIDED = "that the memoised recursion computes exactly the transitive closure for every DAG shape and id order (a property of loop/recursion results)."

ARENA = "ontology::termarena::Arena"
TI = "term::internal::HpoTermInternal"
TI_RX = r"term::internal::HpoTermInternal$"


def is_lookup(c):
    return (c.res or c.deff or "") in (ARENA + "::get", ARENA + "::get_mut")


def is_unchecked(c):
    return (c.res or c.deff or "") in (ARENA + "::get_unchecked", ARENA + "::get_unchecked_mut")


def worklist_loop(body):
    """(header, blocks) of a loop that is driven by a work list: `while let Some(x) = list.last() / list.pop()` with `push` / `extend` to a Vec inside"""
    for h, bl in body.natural_loops().items():
        takes = [bi for bi in bl if body.blocks[bi].term.k == "call" and body.blocks[bi].term.callee.method in ("last", "pop", "pop_front", "pop_back") and re.search(r"Vec|VecDeque|SmallVec|\[", (body.blocks[bi].term.callee.def_args or "") + (body.blocks[bi].term.callee.name or ""))]
        feeds = [bi for bi in bl if body.blocks[bi].term.k == "call" and body.blocks[bi].term.callee.method in ("push", "extend", "push_back", "extend_from_slice", "append")]
        if takes and feeds:
            return h, bl
    return None


def quantified_cache_tests(prog, body, pvn, pv):
    """`<parents>.iter().all(|p| cached(p))` / `.any(..)` calls of `body`: list of (bb, 'all'|'any', polarity of the cache test inside the closure)"""
    from engines import bool_polarity
    out = []
    for bi, t in body.calls():
        if t.callee.trait == "std::iter::Iterator" and t.callee.method in ("all", "any") and len(t.args) == 2:
            cb = prog.bodies.get(pv.closure_of_operand(body, t.args[1]) or "")
            if cb is None:
                continue
            pol, ct = bool_polarity(cb, pvn, lambda c: (c.res or "").endswith("HpoTermInternal::parents_cached"))
            if pol is not None:
                out.append((bi, t.callee.method, pol, t))
    return out


def tests_dominating(body, pvn, tests, bi):
    """some cache test of the body itself has an out-edge that dominates block bi (the read stands under SOME cache test, right or wrong)"""
    for tbi, tt in tests:
        for sb in sorted(body.reach):
            x = body.blocks[sb].term
            if x.k == "switch" and any(body.edge_dominates((sb, tg), bi) for tg in x.successors()) and any(a[0] == "call" and a[3] == body.id and a[4] == tbi for a in pvn.of_operand(body, x.discr)):
                return True
    return False


def local_set(body, pvn, op):
    """the operand is (a borrow of) a set variable created in this body by a constructor call"""
    from engines import user_root_locals
    for l in user_root_locals(body, pvn, op):
        ds = pvn.defs(body).get(l, [])
        if len(ds) == 1 and ds[0][0] == "call" and ds[0][2].callee.method in ("new", "with_capacity", "default", "with_capacity_and_hasher", "with_hasher"):
            return True
    return False


def source_of_ref(body, defs, local):
    """the local that `local` is a (re)borrow / copy of"""
    seen = set()
    while local not in seen:
        seen.add(local)
        ds = defs.get(local, [])
        if len(ds) != 1 or ds[0][0] != "assign":
            return local
        rv = ds[0][2].rv
        if rv["k"] == "ref" and not [e for e in rv["place"].fields() if e != "*"]:
            local = rv["place"].local
        elif rv["k"] == "use" and rv["op"].place is not None and not [e for e in rv["op"].place.fields() if e != "*"]:
            local = rv["op"].place.local
        else:
            return local
    return local


def run(ck, prog, ctx):
    ck.rule("PAIR", "paired effects on every feasible exit (DESIGN 3.7)")
    ck.rule("PHASE", "who may write a field, in which typestate (DESIGN 3.8)")
    ck.rule("ROLE", "role provenance at the cache write and the edge writes (DESIGN 3.4)")
    ck.rule("FIELD", "which field is consulted (DESIGN 3.9)")
    pv = Prov(prog)
    pvn = Prov(prog, inline=False, mutflow=False)
    ms = MutSummary(prog)
    at = Atomic(prog, is_lookup, is_unchecked)

    # leaf mutators of parents / children
    leaf = {}
    for b in prog.production():
        if b.kind == "AssocFn" and b.impl_self and b.impl_self.get("adt") == TI and not b.impl_trait and b.sig and re.search(r"fn\(&'?\w* ?mut ", b.sig):
            fm = codec.fields_mutated(prog, ms, b, TI_RX)
            if fm & {"parents", "children"} and not (fm & {"all_parents"}):
                leaf[b.id] = fm & {"parents", "children"}
    ck.ob("PAIR", "leaf-mutators", {"parents", "children"} <= set().union(*leaf.values()) if leaf else False, "leaf mutators of the edge fields: %s" % {k.rsplit("::", 1)[-1]: sorted(v) for k, v in leaf.items()})

    # `&mut` accessors of the edge fields (`fn parents_mut(&mut self) -> &mut HpoGroup`): a call is a write site of that field when something is
    # added through the reference; a whole assignment through it REPLACES the links recorded so far
    edge_acc = {}
    for b in prog.production():
        if b.kind == "AssocFn" and b.impl_self and b.impl_self.get("adt") == TI and not b.impl_trait and b.nargs == 1 and b.id not in leaf and "&mut" in str(b.locals[0].get("s", "")) and not b.natural_loops():
            fl_ = {a[2] for a in pv.of_return(b) if a[0] == "field" and a[1] == TI}
            if len(fl_) == 1 and fl_ <= {"parents", "children"}:
                edge_acc[b.id] = next(iter(fl_))

    # ------------------------------------------------------------------ PAIR
    writers = []
    for b in prog.production():
        if b.kind not in ("Fn", "AssocFn") or b.id in leaf:
            continue
        sites = [(bi, t, leaf[t.callee.res]) for bi, t in b.calls() if t.callee.res in leaf]
        for bi, t in b.calls():
            if t.callee.res in edge_acc and t.dest is not None and t.dest.is_local():
                fld_ = edge_acc[t.callee.res]
                dl_ = t.dest.local
                alias_ = {dl_}
                grow_ = True
                while grow_:
                    grow_ = False
                    for _, s2 in b.stmts():
                        if s2.k == "assign" and s2.place.is_local() and s2.place.local not in alias_ and s2.rv["k"] in ("ref", "use"):
                            src_ = s2.rv["place"] if s2.rv["k"] == "ref" else s2.rv["op"].place
                            if src_ is not None and src_.local in alias_:
                                alias_.add(s2.place.local)
                                grow_ = True
                replaced = [s2 for _, s2 in b.stmts() if s2.k == "assign" and s2.place.local in alias_ and "*" in s2.place.fields() and not [e for e in s2.place.fields() if e != "*"]]
                added = [(b2, t2) for b2, t2 in b.calls() if t2.callee.method in ("insert", "extend", "push", "insert_unchecked") and t2.args and t2.args[0].place is not None and t2.args[0].place.local in alias_]
                if replaced:
                    ck.ob("PAIR", "edge-field/%s/%s/grows" % (b.short, fld_), False, "%s ASSIGNS the whole `%s` group of a term (through %s): links recorded before - a term whose is_a lines arrive in more than one piece - are replaced, while the other direction of those edges stays" % (b.short, fld_, prog.bodies[t.callee.res].name), where=b.where(replaced[0].line))
                for b2, t2 in added:
                    sites.append((b2, t2, {fld_}))
        # a write performed inside a closure handed to a combinator (`lookup.map(|child| child.add_parent(..))`): the combinator
        # call is the site; whether the closure runs depends on the combinator, so such a site makes the pairing verdict undecided
        for bi, t in b.calls():
            for a_ in t.args[1:] if len(t.args) > 1 else []:
                cb_ = prog.bodies.get(pv.closure_of_operand(b, a_) or "")
                if cb_ is not None and cb_.kind == "Closure":
                    for _, ct_ in cb_.calls():
                        if ct_.callee.res in leaf:
                            sites.append((bi, t, leaf[ct_.callee.res] | {"<closure>"}))
        if sites:
            writers.append((b, sites))
    ck.floor("PAIR", "edge writers", len(writers), 2)

    # deferred half edges: a writer that cannot write one direction yet (the other term is not in the arena) may park the pair in a Vec field of the
    # builder; another function drains that field and writes the missing direction.  Producer and consumer must agree on WHICH component of the
    # parked pair is the term to look up.
    from engines import user_root_locals as _urlq
    pv_x = Prov(prog, mutflow=False)

    def parked_pairs(b_):
        """pushes of a 2-tuple onto a Vec field of self: list of (bb, field, index of the component that is the key of a lookup that failed on the way)"""
        out_ = []
        for bi_, t_ in b_.calls():
            if t_.callee.method != "push" or len(t_.args) != 2 or t_.args[1].place is None:
                continue
            fl_ = field_names(pvn.of_operand(b_, t_.args[0]), "Builder")
            if len(fl_) != 1:
                continue
            tup = [d_ for k_, p_, d_ in pvn.defs(b_).get(t_.args[1].place.local, []) if k_ == "assign" and d_.rv["k"] == "agg" and d_.rv.get("agg") == "tuple" and len(d_.rv["ops"]) == 2]
            if len(tup) != 1:
                continue
            comp_roots = [frozenset(_urlq(b_, pvn, o_)) | frozenset(params_of(pvn.of_operand(b_, o_), b_.id)) for o_ in tup[0].rv["ops"]]
            key_idx = None
            for lbi, lt in b_.calls():
                if (lt.callee.res or "").startswith(ARENA + "::get") and "unchecked" not in (lt.callee.res or "") and len(lt.args) == 2:
                    # its negative (None) edge dominates the push
                    pe_ = set(positive_edges(b_, pvn, lbi))
                    neg = [(sb_, tg_) for sb_ in sorted(b_.reach) if b_.blocks[sb_].term.k == "switch" and any(e_[0] == sb_ for e_ in pe_) for tg_ in b_.blocks[sb_].term.successors() if (sb_, tg_) not in pe_]
                    if any(b_.edge_dominates(e_, bi_) for e_ in neg):
                        kr = frozenset(_urlq(b_, pvn, lt.args[1])) | frozenset(params_of(pvn.of_operand(b_, lt.args[1]), b_.id))
                        hit = [i_ for i_, cr in enumerate(comp_roots) if cr and cr & kr]
                        if len(hit) == 1:
                            key_idx = hit[0]
            out_.append((bi_, next(iter(fl_)), key_idx))
        return out_

    def drains(field_):
        """functions that walk the Vec field `field_` of the builder and write an edge direction per element: list of (body, direction, index of the
        tuple component used as lookup key, index used as the written id)"""
        out_ = []
        for c_ in prog.production():
            if c_.kind not in ("Fn", "AssocFn"):
                continue
            for bi_, t_ in c_.calls():
                if t_.callee.res in leaf and len(t_.args) == 2:
                    key_at = set()
                    for a in pvn.of_operand(c_, t_.args[0]):
                        if a[0] == "call" and a[3] == c_.id and a[1].startswith(ARENA + "::get"):
                            key_at |= set(pv_x.of_operand(c_, c_.blocks[a[4]].term.args[1]))
                    val_at = set(pv_x.of_operand(c_, t_.args[1]))
                    if not any(a[0] == "field" and a[2] == field_ and a[1].endswith("Builder") for a in key_at | val_at):
                        continue

                    def comp_idx(at_):
                        idx = set()
                        for a in at_:
                            if a[0] == "call" and a[1].endswith("::next"):
                                tf = [e[1] for e in a[5] if e[0] == "f" and len(e) > 2 and e[2] == "tuple" and e[1] in ("0", "1")]
                                if tf:
                                    idx.add(tf[-1])
                        return int(next(iter(idx))) if len(idx) == 1 else None
                    out_.append((c_, leaf[t_.callee.res], comp_idx(key_at), comp_idx(val_at), t_.line))
        return out_
    for need in ("add_parent", "add_parent_unchecked"):
        ck.anchor("PAIR", "Builder<AllTerms>::" + need, [b for b, _ in writers if b.name == need], private=(need == "add_parent_unchecked"))
    deferred_fields = set()
    deferred_candidates = {f_ for b_, _s in writers for _bi, f_, _k in parked_pairs(b_)}
    for b, sites in sorted(writers, key=lambda x: x[0].id):
        wp = [(bi, t) for bi, t, f in sites if "parents" in f]
        wc = [(bi, t) for bi, t, f in sites if "children" in f]
        # infeasible error edges: second lookup of an id that a dominating validation edge already established
        infeasible = set()
        lookups, _ = at.keyed_params(b)
        msites = ms.mutation_sites(b)
        mblocks = {s["pos"][0] for s in msites}
        for p in sorted({l["param"] for l in lookups}):
            vedges = at.validated_edges(b, p, mblocks)
            for (sbi, tg) in vedges:
                # another validation switch for p that is dominated by this edge: its error edges cannot be taken
                for (s2, t2) in vedges:
                    if (s2, t2) != (sbi, tg) and s2 != sbi and b.edge_dominates((sbi, tg), s2):
                        x = b.blocks[s2].term
                        for o in x.successors():
                            if o != t2:
                                infeasible.add((s2, o))

        def reach(start, avoid):
            seen, st = set(), [start]
            while st:
                x = st.pop()
                if x in seen or x in avoid:
                    continue
                seen.add(x)
                for y in b.succ[x]:
                    if (x, y) not in infeasible:
                        st.append(y)
            return seen

        def unpaired(a_sites, b_sites):
            """an `a` write that can reach a return without any `b` write before or after"""
            bad = []
            bb = {bi for bi, _ in b_sites}
            for abi, at_ in a_sites:
                # `b` not executed before: entry reaches abi avoiding all b; and not after: abi reaches a return avoiding all b
                before = abi in reach(0, bb)
                after = any(e in reach(abi, bb - {abi}) for e in b.exits) if abi not in bb else False
                if before and after:
                    bad.append((abi, at_))
            return bad

        via_closure = any("<closure>" in f for _, _, f in sites)
        if wp and wc and via_closure:
            ck.undecided("PAIR", "edge/%s" % b.short, "%s writes one direction of the edge inside a closure handed to a combinator: whether both directions are written on every exit is not decided" % b.short, where=b.where())
            continue
        if (not wp or not wc) and any(any(a[0] == "field" and a[2] in deferred_candidates and a[1].endswith("Builder") for a in pv.of_operand(b, t_.args[1])) for bi_, t_ in b.calls() if t_.callee.res in leaf and len(t_.args) == 2):
            # the consumer of a parked-pairs field writes one direction by design (judged together with its producer)
            continue
        if not wp or not wc:
            ck.violation("PAIR", "edge/%s" % b.short, "%s writes only the %s side of an is_a edge" % (b.short, "parents" if wp else "children"), where=b.where())
            continue
        u1 = unpaired(wc, wp)
        u2 = unpaired(wp, wc)
        ok = not u1 and not u2
        if not ok:
            # bulk form: each direction is written in a loop of its own over the SAME collection of ids (`for p in &parents { p.add_child(c) } ..
            # for p in &parents { child.parents.insert(p) }`), possibly skipped as a whole when that collection is empty.  The path "first loop ran,
            # second did not" that the per-edge pairing finds is infeasible; what matters is that both loops walk the same collection completely.
            from engines import for_loops as _fl2, loop_early_exits as _lee2, user_root_locals as _url2
            fls_ = _fl2(b)

            def loop_root(site_bi):
                for lp_ in fls_:
                    if site_bi in lp_["blocks"]:
                        return lp_, frozenset(params_of(pvn.of_operand(b, lp_["iter"]), b.id) - {1} or _url2(b, pvn, lp_["iter"]))
                return None, frozenset()
            roots_p = [loop_root(bi_) for bi_, _ in wp]
            roots_c = [loop_root(bi_) for bi_, _ in wc]
            if all(r_[0] is not None and r_[1] for r_ in roots_p + roots_c) and len({r_[1] for r_ in roots_p + roots_c}) == 1 and {id(r_[0]) for r_ in roots_p} != {id(r_[0]) for r_ in roots_c}:
                early = [e_ for r_ in roots_p + roots_c for e_ in _lee2(b, r_[0])]
                ck.ob("PAIR", "edge/%s" % b.short, not early, "%s writes the two directions of the edges in two loops over the same collection `%s`%s" % (b.short, "/".join(b.local_name(x) for x in sorted(roots_p[0][1])), "" if not early else ", one of which can be left early: half edges remain"), where=b.where())
                u1 = u2 = []
                ok = None
        msg = "%s writes both directions of the edge on every feasible exit%s" % (b.short, " (%d infeasible error edge(s) of a re-lookup of a validated id ignored)" % len(infeasible) if infeasible else "")
        if (u1 or u2) and ok is not None:
            missing_dir = "parents" if u1 else "children"
            parked = parked_pairs(b)
            bad_sites = u1 or u2
            # every unpaired write must be able to reach a parking push (the path on which the other direction is not written ends in the push)
            covered = parked and all(any(pb_ in reach(abi, set()) for pb_, _f, _k in parked) for abi, _t in bad_sites)
            if covered:
                fld_ = parked[0][1]
                cons = [d_ for d_ in drains(fld_) if missing_dir in d_[1]]
                if not cons:
                    ck.undecided("PAIR", "edge/%s" % b.short, "%s parks half edges in self.%s; no function that drains that field and writes the `%s` direction was recognised" % (b.short, fld_, missing_dir), where=b.where())
                else:
                    c_, dir_, kd, vd, line_ = cons[0]
                    kp = parked[0][2]
                    if kp is None or kd is None or vd is None:
                        ck.undecided("PAIR", "edge/%s" % b.short, "%s parks half edges in self.%s, %s completes them: which component of the parked pair is the term to look up is not recognised on one side (producer %s, consumer key %s, value %s)" % (b.short, fld_, c_.short, kp, kd, vd), where=b.where())
                    else:
                        good = kd == kp and vd == 1 - kp
                        ck.ob("PAIR", "edge/%s" % b.short, good, "%s parks the half edge as a pair whose component %d is the term that could not be looked up; %s looks up component %d and writes component %d into its `%s`%s" % (b.short, kp, c_.short, kd, vd, missing_dir, "" if good else ": producer and consumer of self.%s disagree about the order of the pair" % fld_), where=c_.where(line_))
                ok = None
                deferred_fields.add(fld_)
        if u1 and ok is not None:
            msg = "%s: a path writes parent.children (line %s) and returns without writing child.parents: a half edge remains" % (b.short, u1[0][1].line)
        elif u2 and ok is not None:
            msg = "%s: a path writes child.parents (line %s) and returns without writing parent.children" % (b.short, u2[0][1].line)
        if ok is not None:
            ck.ob("PAIR", "edge/%s" % b.short, ok, msg, where=b.where())
        # roles
        pnames = b.arg_names

        def key_params(recv_op):
            out = set()
            for a in pvn.of_operand(b, recv_op):
                if a[0] == "call" and a[3] == b.id and (a[1].startswith(ARENA + "::get")):
                    t = b.blocks[a[4]].term
                    out |= params_of(pvn.of_operand(b, t.args[1]), b.id)
            return out

        ps = sorted(p for p in range(2, b.nargs + 1))
        named = any("parent" in pnames.get(p, "") for p in ps) and any("child" in pnames.get(p, "") for p in ps)
        if not named and wc and wp:
            # a function whose parameters do not name the two ends (`add_term_with_parents(term, parent_ids)`): no names to hold the roles against,
            # but the two writes must still describe the SAME edge - the term that gets the child is the one recorded as parent of that child
            def ends(sites_):
                out = set()
                for bi, t in sites_:
                    rk = key_params(t.args[0])
                    va = params_of(pvn.of_operand(b, t.args[1]), b.id)
                    out.add((frozenset(rk), frozenset(va)))
                return out
            ec, ep = ends(wc), ends(wp)
            if all(k and v for k, v in ec | ep):
                mirror = {(v, k) for k, v in ep}
                ck.ob("ROLE", "edge/%s/same-edge" % b.short, ec == mirror, "%s: children are added as %s, parents as %s%s" % (b.short, sorted((sorted(pnames.get(p, str(p)) for p in k), sorted(pnames.get(p, str(p)) for p in v)) for k, v in ec), sorted((sorted(pnames.get(p, str(p)) for p in k), sorted(pnames.get(p, str(p)) for p in v)) for k, v in ep), "" if ec == mirror else ": the two writes do not describe the same (parent, child) pair"), where=b.where())
            else:
                ck.undecided("ROLE", "edge/%s/same-edge" % b.short, "the terms / ids of the two edge writes of %s are not keyed by parameters" % b.short, where=b.where())
        elif len(ps) >= 2:
            parent_p, child_p = ps[0], ps[1]
            # the method's own parameter names decide which is which when available
            for p in ps:
                nm = pnames.get(p, "")
                if "parent" in nm:
                    parent_p = p
                if "child" in nm:
                    child_p = p
            for bi, t in wc:
                rk = key_params(t.args[0])
                va = params_of(pvn.of_operand(b, t.args[1]), b.id)
                ok = rk == {parent_p} and va == {child_p}
                ck.ob("ROLE", "edge/%s/children" % b.short, ok, "%s: the term looked up by `%s` gets child `%s`" % (b.short, "/".join(pnames.get(p, str(p)) for p in sorted(rk)) or "?", "/".join(pnames.get(p, str(p)) for p in sorted(va)) or "?"), where=b.where(t.line))
            for bi, t in wp:
                rk = key_params(t.args[0])
                va = params_of(pvn.of_operand(b, t.args[1]), b.id)
                ok = rk == {child_p} and va == {parent_p}
                ck.ob("ROLE", "edge/%s/parents" % b.short, ok, "%s: the term looked up by `%s` gets parent `%s`" % (b.short, "/".join(pnames.get(p, str(p)) for p in sorted(rk)) or "?", "/".join(pnames.get(p, str(p)) for p in sorted(va)) or "?"), where=b.where(t.line))

    # ------------------------------------------------------------------ PHASE: who writes all_parents
    cat = prog.one(r"^ontology::builder::Builder::<ontology::builder::AllTerms>::connect_all_terms$")
    ck.anchor("PHASE", "Builder<AllTerms>::connect_all_terms", cat)
    accessor_mut = [b for b in prog.production() if b.kind == "AssocFn" and b.impl_self and b.impl_self.get("adt") == TI and b.sig and "&'a mut" in b.sig and "all_parents" in {a[2] for a in pv.of_return(b) if a[0] == "field"}]
    cache_writers = set()
    for b in prog.production():
        if b.kind not in ("Fn", "AssocFn", "Closure"):
            continue
        # direct field writes or writes through the &mut accessor
        for pos, s in b.stmts():
            if s.k == "assign" and any(e != "*" and e[0] == "f" and e[1] == "all_parents" and e[2] == TI for e in s.place.fields()) and b.name != "new":
                if not (s.rv["k"] == "agg"):
                    cache_writers.add(b.id)
        for bi, t in b.calls():
            if any(t.callee.res == a.id for a in accessor_mut):
                derived = {t.dest.local}
                grow = True
                while grow:
                    grow = False
                    for _, s2 in b.stmts():
                        if s2.k == "assign" and s2.place.is_local() and s2.place.local not in derived:
                            src = None
                            if s2.rv["k"] == "use" and s2.rv["op"].place is not None:
                                src = s2.rv["op"].place
                            elif s2.rv["k"] == "ref":
                                src = s2.rv["place"]
                            if src is not None and src.local in derived and not [e for e in src.fields() if e != "*"]:
                                derived.add(s2.place.local)
                                grow = True
                if any(s.k == "assign" and "*" in s.place.fields() and s.place.local in derived for _, s in b.stmts()) or any(
                        any(a.place is not None and a.place.local in derived and ms.call_mutates(t2.callee, ai) for ai, a in enumerate(t2.args)) for _, t2 in b.calls()):
                    cache_writers.add(b.id)
            # mutating calls on a borrowed all_parents field
            for a in t.args:
                if a.place is not None:
                    for kind, pos, d in pv.defs(b).get(a.place.local, []):
                        if kind == "assign" and d.rv["k"] == "ref" and d.rv["mut"] and any(e != "*" and e[0] == "f" and e[1] == "all_parents" and e[2] == TI for e in d.rv["place"].fields()):
                            if ms.call_mutates(t.callee, t.args.index(a)):
                                cache_writers.add(b.id)
    # a function that only BORROWS the closure set - `let anc = mem::take(term.all_parents_mut()); .. iterate anc ..; *term.all_parents_mut() = anc;` -
    # is not a writer of the cache, provided the set is put back, unchanged, on every way out
    def _touches_cache(fb_, op):
        at = pvn.of_operand(fb_, op)
        return any(a[0] == "field" and a[1] == TI and a[2] == "all_parents" for a in at) or any(a[0] == "call" and any(a[1] == am.id for am in accessor_mut) for a in at)

    def _is_set_ref(b_, local, depth=0):
        """the local IS a reference to a closure set (result of the &mut accessor / a borrow of the field), reached through plain moves and reborrows"""
        if depth > 6:
            return False
        for kind_, pos_, d_ in pvn.defs(b_).get(local, []):
            if kind_ == "call":
                if any(d_.callee.res == am.id for am in accessor_mut):
                    return True
            elif d_.rv["k"] == "ref":
                pl = d_.rv["place"]
                if any(e != "*" and e[0] == "f" and e[1] == "all_parents" and e[2] == TI for e in pl.fields()):
                    return True
                if not [e for e in pl.fields() if e != "*"] and _is_set_ref(b_, pl.local, depth + 1):
                    return True
            elif d_.rv["k"] == "use" and d_.rv["op"].place is not None and not [e for e in d_.rv["op"].place.fields() if e != "*"]:
                if _is_set_ref(b_, d_.rv["op"].place.local, depth + 1):
                    return True
        return False

    def borrow_and_restore(b_):
        takes, restores, others = [], [], []
        for bi_, t_ in b_.calls():
            nm_ = t_.callee.name or ""
            if re.search(r"(std|core)::mem::(take|replace)$", nm_) and t_.args and t_.args[0].place is not None and _is_set_ref(b_, t_.args[0].place.local):
                takes.append((bi_, t_))
                continue
            for ai_, a_ in enumerate(t_.args):
                # only a mutation of the set ITSELF (through its borrowed reference) counts, not of something looked up with an id read from it
                if a_.place is not None and a_.place.is_local() and ms.call_mutates(t_.callee, ai_) and _is_set_ref(b_, a_.place.local) and not any(t_.callee.res == am.id for am in accessor_mut):
                    others.append((bi_, t_))
        take_bbs = {bi_ for bi_, _ in takes}
        for pos_, s_ in b_.stmts():
            if s_.k == "assign" and s_.place.proj and s_.place.proj[0] == "*" and len(s_.place.proj) == 1 and _is_set_ref(b_, s_.place.local):
                v_ = pvn.of_operand(b_, s_.rv["op"]) if s_.rv["k"] == "use" else frozenset()
                if any(a[0] == "call" and a[3] == b_.id and a[4] in take_bbs for a in v_):
                    restores.append((pos_, s_))
                else:
                    others.append((pos_[0], s_))
            elif s_.k == "assign" and any(e != "*" and e[0] == "f" and e[1] == "all_parents" and e[2] == TI for e in s_.place.fields()) and s_.rv["k"] != "agg":
                v_ = pvn.of_operand(b_, s_.rv["op"]) if s_.rv["k"] == "use" else frozenset()
                if any(a[0] == "call" and a[3] == b_.id and a[4] in take_bbs for a in v_):
                    restores.append((pos_, s_))
                else:
                    others.append((pos_[0], s_))
        return takes, restores, others
    for wid in sorted(cache_writers):
        wb0 = prog.bodies[wid]
        if wb0.kind not in ("Fn", "AssocFn"):
            continue
        takes, restores, others = borrow_and_restore(wb0)
        if takes and restores and not others:
            cache_writers.discard(wid)
            rb_ = {pos_[0] for pos_, _ in restores}
            leak = False
            for tb_, _ in takes:
                seen_, work_ = set(), [x for x in wb0.succ[tb_]]
                while work_:
                    y = work_.pop()
                    if y in seen_ or y in rb_:
                        continue
                    seen_.add(y)
                    if wb0.blocks[y].term.k == "return":
                        leak = True
                    work_.extend(wb0.succ[y])
            ck.ob("PHASE", "borrowed-cache/" + wb0.short, not leak, "%s takes a term's closure set out to iterate it and %s" % (wb0.short, "puts the same set back on every way out" if not leak else "can RETURN without putting it back: that term's ancestor set stays empty"), where=wb0.where(takes[0][1].line))
    _reach_w = {}

    def to_writer(t):
        r = t.callee.res
        if not r or r not in prog.bodies:
            return False
        if r in cache_writers:
            return True
        if r not in _reach_w:
            tb = prog.bodies[r]
            _reach_w[r] = tb.kind in ("Fn", "AssocFn") and not (tb.exported or tb.reachable or tb.impl_trait) and bool(prog.reachable_bodies([r]) & cache_writers)
        return _reach_w[r]
    ck.ob("PHASE", "cache-writers", bool(cache_writers), "writers of HpoTermInternal.all_parents: %s" % sorted(x.rsplit("::", 1)[-1] for x in cache_writers))
    cats = {cat.id} if cat is not None else set()
    if cat is not None and cache_writers and not any(to_writer(t_) for fb_ in prog.family(cat) for _, t_ in fb_.calls()):
        # connect_all_terms may hand its whole work to a sibling of the same impl (a new fallible `try_connect_all_terms` that it calls and
        # unwraps): that sibling is then a second spelling of the one transition, and the body the rules below read
        sib_ = [tg_ for tg_ in (prog.bodies.get(t_.callee.res or "") for _, t_ in cat.calls()) if tg_ is not None and tg_.kind == "AssocFn" and not tg_.impl_trait and tg_.id != cat.id
                and tg_.impl_self == cat.impl_self and prog.reachable_bodies([tg_.id]) & cache_writers]
        if len({x_.id for x_ in sib_}) == 1 and not cat.natural_loops():
            cats.add(sib_[0].id)
            cat = sib_[0]
    if cat is not None and cache_writers:
        cg = prog.callgraph
        # public entry points that reach a writer without passing through connect_all_terms
        bad = []
        for e in prog.production():
            if e.kind in ("Fn", "AssocFn") and e.reachable and e.id not in cats:
                r = prog.reachable_bodies([e.id], stop=cats)
                hit = r & cache_writers
                if hit:
                    bad.append((e, sorted(hit)))
        for e, hit in bad[:5]:
            ck.violation("PHASE", "cache-writer-reachable/%s" % e.short, "public %s reaches the ancestor-cache writer %s without going through connect_all_terms" % (e.short, hit[0].rsplit("::", 1)[-1]), where=e.where())
        ck.ob("PHASE", "cache-writers-confined", not bad, "no public function reaches a writer of all_parents except through connect_all_terms (%d public entry points examined)" % len([e for e in prog.production() if e.kind in ("Fn", "AssocFn") and e.reachable]))
        ck.ob("PHASE", "connect-reaches-writer", bool(prog.reachable_bodies([cat.id]) & cache_writers), "connect_all_terms reaches the cache writer", where=cat.where())
        # the AllTerms -> ConnectedTerms transition is produced only there
        trans = []
        for b in prog.production():
            for bi, t in b.calls():
                if (t.callee.res or "").endswith("builder::transition_state") and re.search(r"AllTerms,\s*ontology::builder::ConnectedTerms>", t.callee.def_args or ""):
                    trans.append((b, t))
            for pos, s in b.stmts():
                if s.k == "assign" and s.rv["k"] == "agg" and s.rv.get("adt") == "ontology::builder::Builder" and "ConnectedTerms" in b.locals[s.place.local]["s"] and b.name != "transition_state":
                    trans.append((b, s))
        okt = trans and all(b.id in cats for b, _ in trans)
        ck.ob("PHASE", "transition", bool(okt), "the AllTerms -> ConnectedTerms transition is performed by %s" % sorted({b.short for b, _ in trans}), where=cat.where())

    if cat is not None:
        check_required_steps(ck, "PHASE", prog, cat, [("build the cache of every term", lambda t: to_writer(t))])
    if cat is not None:
        # the set of terms the cache pass visits: an Arena accessor that leaves out exactly the placeholder slot, iterated completely
        dflt = prog.body("<ontology::termarena::Arena as std::default::Default>::default")
        n_ph = len([t for _, t in dflt.calls() if t.callee.method == "push" and "HpoTermInternal" in (t.callee.def_args or "")]) if dflt is not None else None
        accs = sorted({t.callee.res.rsplit("::", 1)[-1] for fb in prog.family(cat) for _, t in fb.calls() if (t.callee.res or "").startswith("ontology::termarena::Arena::") and t.callee.res.rsplit("::", 1)[-1] in ("keys", "values", "values_mut", "iter")})
        # index form: `for i in a..b { let id = arena.id_at(i); .. }` where the accessor reads `terms[i]`: the positions walked must be exactly
        # [number of placeholders, len(terms))  (LenEval: affine in len(self.terms), through Arena::len)
        idx_form = False
        if not accs and n_ph is not None:
            from engines import LenEval
            le_ = LenEval(prog)
            for lp in for_loops(cat):
                it_ = lp["iter"]
                rng = None
                cur = it_.place.local if it_.place is not None else None
                seen_l = set()
                while cur is not None and cur not in seen_l and rng is None:
                    seen_l.add(cur)
                    ds = pvn.defs(cat).get(cur, [])
                    nxt = None
                    for k_, p_, d_ in ds:
                        if k_ == "assign" and d_.rv["k"] == "agg" and re.search(r"::Range(Inclusive)?$", d_.rv.get("adt", "")) and len(d_.rv["ops"]) == 2:
                            rng = d_.rv
                        elif k_ == "assign" and d_.rv["k"] in ("use", "ref"):
                            src_ = d_.rv["op"].place if d_.rv["k"] == "use" else d_.rv["place"]
                            nxt = src_.local if src_ is not None else None
                        elif k_ == "call" and d_.callee.method in ("into_iter", "iter") and d_.args and d_.args[0].place is not None:
                            nxt = d_.args[0].place.local
                    cur = nxt
                if rng is None:
                    continue
                # the loop variable indexes the arena's `terms` through an Arena accessor called in the loop
                via = [t_ for bi_, t_ in cat.calls() if bi_ in lp["blocks"] and (t_.callee.res or "").startswith("ontology::termarena::Arena::") and t_.callee.res in prog.bodies and len(t_.args) == 2
                       and any(t2.callee.trait == "std::ops::Index" and "HpoTermInternal" in (t2.callee.def_args or "") and params_of(pvn.of_operand(prog.bodies[t_.callee.res], t2.args[1]), t_.callee.res) == {2} for _, t2 in prog.bodies[t_.callee.res].calls())]
                if not via:
                    continue
                idx_form = True
                # the arena is a field of the builder: evaluate the bounds in the Arena's own terms by inlining `self.hpo_terms.len()`
                def bound(op_):
                    v = le_.usize(cat, op_)
                    if v is None and op_.place is not None:
                        for k_, p_, d_ in pvn.defs(cat).get(op_.place.local, []):
                            if k_ == "call" and (d_.callee.res or "") == "ontology::termarena::Arena::len":
                                g_ = prog.bodies[d_.callee.res]
                                r_ = le_._ret(g_)
                                if r_ is not None:
                                    return le_._rv_usize(g_, r_[1].rv, 0) if r_[0] == "assign" else le_._call_usize(g_, r_[1], 0)
                    return v
                lo, hi = bound(rng["ops"][0]), bound(rng["ops"][1])
                if hi is not None and rng["adt"].endswith("Inclusive"):
                    hi = LenEval._comb(hi, {(): 1}, 1)
                want_lo, want_hi = ({(): n_ph} if n_ph else {}), {("len", ("terms",)): 1}
                if lo is None or hi is None:
                    ck.undecided("PHASE", "connect/visits-all/index-range", "connect_all_terms walks the arena by position (%s); the bounds of the range are not affine in the arena's length" % via[0].callee.res.rsplit("::", 1)[-1], where=cat.where(lp["line"]))
                else:
                    from engines import fmt_len
                    okr = lo == want_lo and hi == want_hi
                    ck.ob("PHASE", "connect/visits-all/index-range", okr, "connect_all_terms walks the positions [%s, %s) of the arena's `terms` through Arena::%s (the real terms are [%d, len(terms)))%s" % (fmt_len(lo), fmt_len(hi).replace("self.", ""), via[0].callee.res.rsplit("::", 1)[-1], n_ph,
                          "" if okr else ": " + ("the placeholder is visited and " if lo != want_lo and (lo.get((), 0) if lo else 0) < n_ph else "") + ("the last term(s) never get an ancestor cache" if hi != want_hi else "the first real term(s) are left out")), where=cat.where(lp["line"]))
        if (not accs and not idx_form) or n_ph is None:
            ck.undecided("PHASE", "connect/visits-all", "the accessor that enumerates the terms for the cache pass is not recognised", where=cat.where())
        for a in accs:
            k = arena_placeholder_skips(prog, a)
            if k is None:
                ck.undecided("PHASE", "connect/visits-all/" + a, "shape of Arena::%s not recognised" % a, where=cat.where())
            else:
                ck.ob("PHASE", "connect/visits-all/" + a, k == n_ph, "connect_all_terms enumerates the terms with Arena::%s, which leaves out %d leading slot(s) of `terms` (the arena reserves %d placeholder): %s" % (a, k, n_ph, "every term gets its ancestor cache" if k == n_ph else "the first real term(s) never get an ancestor cache"), where=cat.where())
        fl = for_loops(cat)
        for i, lp in enumerate(fl):
            steps = {bi for bi, t in cat.calls() if bi in lp["blocks"] and to_writer(t)}
            # a term that `parents_cached()` reports as done needs no second pass: the edge on which that test is TRUE may bypass the step
            # (what `parents_cached` may answer is decided by FIELD/parents_cached/table)
            for bi, t in cat.calls():
                if bi in lp["blocks"] and (t.callee.res or "").endswith("HpoTermInternal::parents_cached"):
                    for (sb_, tg_) in positive_edges(cat, pvn, bi):
                        if tg_ in lp["blocks"] or tg_ == lp["header"]:
                            steps.add(("edge", sb_, tg_))
            edge_steps = {x for x in steps if isinstance(x, tuple)}
            steps = {x for x in steps if not isinstance(x, tuple)}
            if edge_steps and steps:
                # split the excused edge with a virtual step: a path over it counts as having done the step
                from engines import loop_skip_path as _lsp
                excused = {(sb_, tg_) for _, sb_, tg_ in edge_steps}
                seen_, st_ = set(), [lp["some"]]
                skipped = False
                while st_:
                    x_ = st_.pop()
                    if x_ == lp["header"]:
                        skipped = True
                        break
                    if x_ in seen_ or x_ in steps or x_ not in lp["blocks"]:
                        continue
                    seen_.add(x_)
                    st_.extend(y_ for y_ in cat.succ[x_] if (x_, y_) not in excused)
                ck.ob("PHASE", "connect/loop/%d/every" % i, not skipped and lp["some"] not in (), "%s: `build the ancestor cache` %s" % (cat.short, "runs for every term of the arena that is not reported as cached already" if not skipped else "is SKIPPED for some elements of the terms of the arena (a `continue` or a guard other than the cached-test bypasses it)"), where=cat.where())
                continue
            if steps:
                # a visited-set guard (`if scheduled.insert(id) { .. }` on a set that lives in this function): terms skipped here were handled on behalf
                # of another term - whether that really built their cache is the work list's business, not decided by the per-element rule
                from engines import loop_skip_path as _lsp2
                vis = [(vbi, vt) for vbi, vt in cat.calls() if vbi in lp["blocks"] and vt.callee.method in ("insert", "contains") and re.search(r"HashSet|BTreeSet", (vt.callee.def_args or "") + (vt.callee.name or "")) and vt.args and vt.args[0].place is not None
                       and local_set(cat, pvn, vt.args[0])]
                if vis and _lsp2(cat, lp, steps) and any(any(cat.edge_dominates(e_, sb_) for e_ in positive_edges(cat, pvn, vbi)) for vbi, vt in vis for sb_ in steps):
                    ck.undecided("PHASE", "connect/loop/%d/every" % i, "%s builds the cache only for terms that a local visited set has not seen (`%s`, line %s): that the skipped terms were completed on behalf of another term is not decided here" % (cat.short, vis[0][1].callee.method, vis[0][1].line), where=cat.where(vis[0][1].line))
                    continue
                check_every_element(ck, "PHASE", "connect/loop/%d" % i, cat, lp, steps, "build the ancestor cache", "the terms of the arena")
        hard = hard_truncations(prog, cat)
        ck.ob("PHASE", "connect/complete-iteration", not hard, "connect_all_terms %s" % ("iterates the enumerated terms completely" if not hard else "drops terms with `%s` (line %s)" % (hard[0][1].callee.method, hard[0][1].line)), where=cat.where())
    for wid in sorted(cache_writers):
        wb_ = prog.bodies[wid]
        if wb_.kind in ("Fn", "AssocFn") and wb_.impl_self and wb_.impl_self.get("adt") == "ontology::builder::Builder":
            # a term WITHOUT direct parents has nobody to visit: the true edge of `parents.is_empty()` counts as the visit
            def visit_or_none(t, _wb=wb_):
                if to_writer(t):
                    return True
                if t.callee.method == "is_empty" and t.args:
                    og_ = origins(_wb, pvn, t.args[0])
                    return any(o[0] == "call" and o[1] == TI + "::parents" for o in og_) or ("field", TI, "parents") in og_
                return False
            steps_ = [("write the cache", lambda t: any(t.callee.res == a.id for a in accessor_mut)), ("visit every direct parent", visit_or_none)]
            if worklist_loop(wb_) is not None and not any(to_writer(t_) for _, t_ in wb_.calls()):
                # an explicit work list instead of recursion: parents are "visited" by being put on the list; that every pass of the loop ends with the
                # cache written is the loop's own progress argument, which the step rule (phrased over the recursive form) does not make
                ck.undecided("ROLE", "required-step/%s/visit every direct parent" % wb_.short, "%s builds the caches with an explicit work list (no recursion): the recursive form's step rule does not apply" % wb_.short, where=wb_.where())
                steps_ = []
            check_required_steps(ck, "ROLE", prog, wb_, steps_)

    # ------------------------------------------------------------------ PHASE: every direct parent contributes its closure
    # (a `continue` / guard that skips the accumulation for some parents - "redundant edge" shortcuts - loses ancestors)
    for wid in sorted(cache_writers):
        wb_ = prog.bodies[wid]
        if wb_.kind not in ("Fn", "AssocFn"):
            continue
        fls = for_loops(wb_)
        nat = wb_.natural_loops()
        for i, lp in enumerate(fls):
            src = origins(wb_, pvn, lp["iter"])
            if not (any(o[0] == "call" and o[1] == TI + "::parents" for o in src) or ("field", TI, "parents") in src):
                continue
            # accumulation sites: every call in the loop that CONSUMES the parent's closure set (the value read through a cache getter) other
            # than a pure query - insert in an inner loop over it, `|`, extend, clone / clone_from into the accumulator, a private merge helper
            QUERY = {"is_empty", "len", "contains", "iter", "into_iter", "next", "deref", "as_ref", "borrow", "first", "last", "get"}
            closure_getters_ = {x.id for x in prog.production() if x.kind in ("Fn", "AssocFn") and "all_parents" in field_names(pv.of_return(x), "HpoTermInternal") and x.id not in (TI + "::new",)}

            def is_closure_val(op):
                og_ = origins(wb_, pvn, op)
                return any(o[0] == "call" and (o[1] in closure_getters_ or o[1] in cache_writers) for o in og_) or ("field", TI, "all_parents") in og_
            acc = set()
            for bi, t in wb_.calls():
                if bi not in lp["blocks"] or bi == lp["next_bb"] or not t.args:
                    continue
                consumed = [a for a in t.args if a.place is not None and is_closure_val(a)]
                if not consumed or (t.callee.res in closure_getters_) or (t.callee.res in cache_writers) or to_writer(t):
                    continue
                if t.callee.method in ("iter", "into_iter"):
                    # an inner loop over the closure: counts at its header (it may run zero times) when it accumulates inside
                    for il in fls:
                        if il["header"] in lp["blocks"] and il["header"] != lp["header"] and any(x[0] == "call" and x[3] == wb_.id and x[4] == bi for x in pvn.of_operand(wb_, il["iter"])):
                            if any(b2 in il["blocks"] and (t2.callee.method in ("insert", "push", "extend", "insert_unchecked")) for b2, t2 in wb_.calls()):
                                acc.add(il["header"])
                    continue
                if t.callee.method == "is_empty" and len(t.args) == 1:
                    # `if !ancestors.is_empty() { union }`: on the branch where the parent's closure set IS empty there is nothing to add - that
                    # branch counts as the step (only when it is a block of its own, so that no other way round the step hides behind it)
                    from engines import positive_edges as _pe
                    for e_ in _pe(wb_, pvn, bi):
                        if e_[1] in lp["blocks"] and len([p_ for p_ in wb_.pred[e_[1]] if p_ in wb_.reach]) == 1:
                            acc.add(e_[1])
                    continue
                if t.callee.method in QUERY:
                    continue
                if t.callee.trait == "std::iter::Iterator" and t.callee.method not in ("for_each", "fold", "try_for_each", "try_fold", "collect", "chain"):
                    continue  # any / all / find / position ... over (or capturing) the closure set: a test, not an accumulation
                acc.add(bi)
            if acc:
                # `if !res.insert(parent) { continue }` / `if res.contains(parent) { continue }` on the set that is being accumulated: the parent is
                # skipped because it is ALREADY a member (an ancestor of an earlier parent).  That its own ancestors are then members as well is a
                # property of the data (closed sets), not of the loop: undecided.  (Leaving the LOOP on that edge is judged by the /all rule.)
                from engines import user_root_locals as _url3, positive_edges as _pe3
                acc_roots = set()
                for abi in acc:
                    at_ = wb_.blocks[abi].term
                    if at_.k == "call":
                        if at_.dest is not None and at_.dest.is_local():
                            acc_roots.add(at_.dest.local)
                        for a_ in at_.args[:1]:
                            if a_.place is not None:
                                acc_roots |= set(_url3(wb_, pvn, a_))
                member_targets = set()
                gline = None
                for vbi, vt in wb_.calls():
                    if vbi in lp["blocks"] and vt.callee.method in ("insert", "contains") and vt.args and vt.args[0].place is not None and set(_url3(wb_, pvn, vt.args[0])) & acc_roots:
                        pos_ = _pe3(wb_, pvn, vbi)
                        if vt.callee.method == "contains":
                            member_targets |= {tg_ for _, tg_ in pos_}
                        else:
                            member_targets |= {tg_ for sb_, _ in pos_ for tg_ in wb_.succ[sb_] if (sb_, tg_) not in pos_}
                        gline = vt.line
                member_targets = {tg_ for tg_ in member_targets if tg_ in lp["blocks"] and tg_ not in acc}
                check_every_element(ck, "PHASE", "cache/%s/parents-loop/%d" % (wb_.short, i), wb_, lp, acc, "add the parent's ancestors to the set", "the direct parents",
                                    excused=(member_targets, "%s skips a direct parent that is already a member of the set being accumulated (line %s): whether its ancestors are then members too is a property of the cached sets, not decided here" % (wb_.short, gline)))

    # ------------------------------------------------------------------ ROLE: the cache write
    for wid in sorted(cache_writers):
        w = prog.bodies[wid]
        for bi, t in w.calls():
            if not any(t.callee.res == a.id for a in accessor_mut):
                continue
            dl = t.dest.local
            for pos, s in w.stmts():
                if s.k == "assign" and "*" in s.place.fields() and s.place.local == dl and s.rv["k"] == "use":
                    val = pv.of_operand(w, s.rv["op"])
                    # operands of the union-like operations that build the written value, classified by their shallow origin
                    parts = set()
                    closure_getters = {x.id for x in prog.production() if x.kind in ("Fn", "AssocFn") and "all_parents" in field_names(pv.of_return(x), "HpoTermInternal") and x.id not in (TI + "::new",)}
                    # a copy (clone / to_owned / clone_from) is a union operand only when the copy itself is (part of) the written GROUP - reached
                    # backwards from the written value through moves, borrows and the operands of set operations, never through an iteration
                    # (`let parents = t.parents().clone(); for p in &parents { .. }` iterates the copy, it does not unite it)
                    UNION_M = ("bitor", "clone", "to_owned", "clone_from", "add", "extend", "union", "take", "replace")
                    gflow, gwork = set(), ([s.rv["op"].place.local] if s.rv["op"].place is not None else [])
                    wdefs = pvn.defs(w)
                    while gwork:
                        l_ = gwork.pop()
                        if l_ in gflow:
                            continue
                        gflow.add(l_)
                        for k_, p_, d_ in wdefs.get(l_, []):
                            if k_ == "assign" and d_.rv["k"] in ("use", "cast") and d_.rv["op"].place is not None:
                                gwork.append(d_.rv["op"].place.local)
                            elif k_ == "assign" and d_.rv["k"] == "ref":
                                gwork.append(d_.rv["place"].local)
                            elif k_ == "call" and (d_.callee.method in UNION_M or (d_.callee.res in prog.bodies and "HpoGroup" in (d_.callee.res or ""))):
                                gwork.extend(x_.place.local for x_ in d_.args if x_.place is not None)
                        for _, ct_ in w.calls():
                            # calls that write the group behind `&mut l_`: their group-typed operands flow in as well
                            if ct_.callee.method in ("extend", "clone_from", "append", "bitor_assign") or (ct_.callee.res in prog.bodies and "HpoGroup" in (ct_.callee.res or "") and ct_.callee.method not in ("insert", "insert_unchecked", "contains")):
                                if ct_.args and ct_.args[0].place is not None and source_of_ref(w, wdefs, ct_.args[0].place.local) == l_:
                                    gwork.extend(x_.place.local for x_ in ct_.args[1:] if x_.place is not None)
                    for a in val:
                        hb_id = (a[3] if a[0] == "call" else a[2]) if a[0] in ("call", "mutcall") else None
                        if hb_id is not None and (hb_id == w.id or hb_id.startswith(w.id + "::{closure")) and hb_id in prog.bodies:
                            hb = prog.bodies[hb_id]
                            cbi = a[4] if a[0] == "call" else a[3]
                            ct = hb.blocks[cbi].term
                            nm = ct.callee.res or ct.callee.deff or ""
                            group_helper = nm in prog.bodies and (prog.bodies[nm].impl_self or {}).get("adt", "").endswith("HpoGroup") and not prog.bodies[nm].exported and "&mut" in str(prog.bodies[nm].locals[1].get("s", "")) if nm in prog.bodies and prog.bodies[nm].nargs >= 1 else False
                            if not (("BitOr" in (ct.callee.def_args or "") and "HpoGroup" in (ct.callee.def_args or "")) or nm.endswith("HpoGroup::insert") or ct.callee.method in ("extend", "add", "clone", "clone_from", "to_owned") and "HpoGroup" in ((ct.callee.def_args or "") + nm) or group_helper):
                                continue
                            if hb is w and ct.callee.method in ("clone", "to_owned") and not (ct.dest is not None and ct.dest.is_local() and ct.dest.local in gflow):
                                continue
                            if hb is w and ct.callee.method == "clone_from" and not (ct.args and ct.args[0].place is not None and source_of_ref(w, wdefs, ct.args[0].place.local) in gflow):
                                continue
                            for x in ct.args:
                                og = origins(hb, pvn, x)
                                if hb is not w:
                                    # inside an adaptor closure (fold / for_each): the element is a closure parameter, bound by the inlining provenance
                                    for y in pv.of_operand(hb, x):
                                        if y[0] == "field":
                                            og.add(y)
                                        elif y[0] == "call":
                                            og.add(("call", y[2] if y[2] in prog.bodies else y[1]))
                                if any(o[0] == "call" and o[1] == TI + "::parents" for o in og) or ("field", TI, "parents") in og:
                                    parts.add("direct parents")
                                if any(o[0] == "call" and o[1] in closure_getters for o in og) or ("field", TI, "all_parents") in og:
                                    parts.add("closures of the parents")
                    ok = parts == {"direct parents", "closures of the parents"}
                    hand_ = sorted({a[1].rsplit("::", 1)[-1] for a in val if a[0] in ("call", "mutcall") and re.search(r"(^|::)vec::Vec|SmallVec", a[1]) and a[1].rsplit("::", 1)[-1].split("::<")[0] in ("insert", "push", "extend", "extend_from_slice", "append")})
                    if not ok and hand_:
                        # the set is put together in a plain vector (`ancestors.extend(closure); sort; dedup; ancestors.insert(pos, parent)`) and turned
                        # into a group at the end: the group operators this rule reads do not take part
                        ck.undecided("ROLE", "cache-write/%s/value" % w.short, "the cached set is assembled by hand in a vector (`%s`) and converted at the end: which ids it receives is not read by this rule (recognised so far: %s)" % ("`, `".join(hand_), ", ".join(sorted(parts)) or "nothing"), where=w.where(s.line))
                        continue
                    ck.ob("ROLE", "cache-write/%s/value" % w.short, ok, "the cache is written as the union of {%s} (expected direct parents ∪ the parents' closures)" % ", ".join(sorted(parts)), where=w.where(s.line))
                    # same term: receiver keyed by the function's term parameter, parents read from the same parameter
                    rk = set()
                    for a in pvn.of_operand(w, t.args[0]):
                        if a[0] == "call" and a[3] == w.id and a[1].startswith(ARENA + "::get"):
                            rk |= params_of(pvn.of_operand(w, w.blocks[a[4]].term.args[1]), w.id)
                    pk = set()
                    for cbi, ct in w.calls():
                        if ct.callee.res == TI + "::parents":
                            for a in pvn.of_operand(w, ct.args[0]):
                                if a[0] == "call" and a[3] == w.id and a[1].startswith(ARENA + "::get"):
                                    pk |= params_of(pvn.of_operand(w, w.blocks[a[4]].term.args[1]), w.id)
                    if not rk and not pk:
                        # the term is not a parameter (it comes off a work list): compare the user variables the two keys are copies of
                        from engines import user_root_locals as _url
                        rv_, pv2_ = set(), set()
                        for a in pvn.of_operand(w, t.args[0]):
                            if a[0] == "call" and a[3] == w.id and a[1].startswith(ARENA + "::get"):
                                rv_ |= _url(w, pvn, w.blocks[a[4]].term.args[1])
                        for cbi, ct in w.calls():
                            if ct.callee.res == TI + "::parents":
                                for a in pvn.of_operand(w, ct.args[0]):
                                    if a[0] == "call" and a[3] == w.id and a[1].startswith(ARENA + "::get"):
                                        pv2_ |= _url(w, pvn, w.blocks[a[4]].term.args[1])
                        if rv_ and pv2_:
                            ck.ob("ROLE", "cache-write/%s/same-term" % w.short, rv_ == pv2_ and len(rv_) == 1, "the cache of term `%s` is built from the parents of term `%s`" % ("/".join(w.local_name(p) for p in sorted(rv_)), "/".join(w.local_name(p) for p in sorted(pv2_))), where=w.where(s.line))
                        else:
                            ck.undecided("ROLE", "cache-write/%s/same-term" % w.short, "the term whose cache is written / whose parents are read is not keyed by a parameter or a named variable", where=w.where(s.line))
                        continue
                    ck.ob("ROLE", "cache-write/%s/same-term" % w.short, rk == pk and len(rk) == 1, "the cache of term `%s` is built from the parents of term `%s`" % ("/".join(w.local_name(p) for p in rk), "/".join(w.local_name(p) for p in pk)), where=w.where(s.line))
    # a parent's closure is only read once it is known to be built: every read of `all_parents` in the cache-building code is
    # preceded on every path by the cache test (positive edge) or by a call that builds that cache
    getter = TI + "::all_parents"
    builders = set(cache_writers)
    scope = {wid for wid in cache_writers if prog.bodies[wid].kind in ("Fn", "AssocFn")}
    if cat is not None:
        scope |= {x for x in prog.reachable_bodies([cat.id]) if x in prog.bodies and prog.bodies[x].kind in ("Fn", "AssocFn") and x.startswith("ontology::builder::")}
    nreads = 0
    for bid in sorted(scope):
        b = prog.bodies[bid]
        reads = [(bi, t) for bi, t in b.calls() if t.callee.res == getter]
        if not reads:
            continue
        tests = [(bi, t) for bi, t in b.calls() if (t.callee.res or "").endswith("HpoTermInternal::parents_cached")]
        pos_edges = set()
        for tbi, tt in tests:
            for e in positive_edges(b, pvn, tbi):
                pos_edges.add(e)
        # (a private `ensure_cache(id)` that tests and, if needed, calls the writer is a builder as well: after it the cache exists)
        build_blocks = {bi for bi, t in b.calls() if t.callee.res in builders or (to_writer(t) and t.callee.res != b.id)}
        # `parents.iter().all(|p| cached(p))`: its true edge is a cache test for EVERY parent (`any` is a test for some parent only - not a guard)
        quant = quantified_cache_tests(prog, b, pvn, pv)
        wrong_quant = []
        for qbi, qm, qpol, qt in quant:
            if (qm == "all" and qpol == 1):
                for e in positive_edges(b, pvn, qbi):
                    pos_edges.add(e)
            elif (qm == "any" and qpol == -1):
                # !any(|p| !cached(p))  ==  all(cached): the FALSE edge of the call
                pe_ = set(positive_edges(b, pvn, qbi))
                for sbi_ in sorted(b.reach):
                    x_ = b.blocks[sbi_].term
                    if x_.k == "switch" and any(e[0] == sbi_ for e in pe_):
                        for tg_ in x_.successors():
                            if (sbi_, tg_) not in pe_:
                                pos_edges.add((sbi_, tg_))
            elif qm == "any" and qpol == 1:
                wrong_quant.append((qbi, qt))
        for bi, t in reads:
            nreads += 1
            # is the read reachable from the entry without passing a positive cache test edge or a cache-building call?
            seen, st = set(), [0]
            reached = False
            while st:
                x = st.pop()
                if x in seen:
                    continue
                seen.add(x)
                if x == bi:
                    reached = True
                    break
                if x in build_blocks:
                    continue
                for y in b.succ[x]:
                    if (x, y) in pos_edges:
                        continue
                    st.append(y)
            key_r = "cache-read/%s/%d" % (b.short, len([1 for r in reads if r[0] < bi]))
            if reached and wrong_quant and any(any(b.edge_dominates(e, bi) for e in positive_edges(b, pvn, qbi)) for qbi, qt in wrong_quant):
                ck.ob("ROLE", key_r, False, "%s reads the parents' ancestor caches once ANY parent is cached (`any`, line %s): the caches of the other parents may not be built yet - it takes `all`" % (b.short, wrong_quant[0][1].line), where=b.where(t.line))
                continue
            if reached and worklist_loop(b) is not None and not tests_dominating(b, pvn, tests, bi):
                ck.undecided("ROLE", key_r, "%s (work-list form) reads a parent's cache under a readiness argument that is not a cache test on the path (`all(cached)` / `parents_cached()`), e.g. a length comparison after feeding the list: not decided" % b.short, where=b.where(t.line))
                continue
            # the term whose cache is read: the function's own term (being written right now) is exempt
            ck.ob("ROLE", key_r, not reached,
                  "%s reads a term's ancestor cache %s" % (b.short, "only after the cache test succeeded or the cache was built" if not reached else "(line %s) on a path where it may not be built yet: ancestors are silently missing depending on the order of terms" % t.line), where=b.where(t.line))
    ck.floor("ROLE", "ancestor-cache reads in the cache construction", nreads, 1)

    # the closure never contains the term itself: no union/insert operand of the cache writer is the term's own id
    for wid in sorted(cache_writers):
        w = prog.bodies[wid]
        if w.kind not in ("Fn", "AssocFn"):
            continue
        own = []
        for bi, t in w.calls():
            nm = t.callee.res or t.callee.deff or ""
            if nm.endswith("HpoGroup::insert") or ("BitOr" in (t.callee.def_args or "") and "HpoGroup" in (t.callee.def_args or "")) or (t.callee.trait == "std::ops::Add" and "HpoGroup" in (t.callee.def_args or "")):
                for x in t.args[1:]:
                    og = origins(w, pvn, x)
                    if any(o[0] == "param" and "HpoTermId" in w.locals[o[1]]["s"] for o in og) and not any(o[0] == "call" for o in og):
                        own.append((bi, t))
        ck.ob("ROLE", "cache-write/%s/no-self" % w.short, not own, "%s %s" % (w.short, "never adds the term's own id to its ancestor cache" if not own else "adds the term's own id to its ancestor cache (line %s): a term becomes its own ancestor" % own[0][1].line), where=w.where())

    # binary path: the parent section is written as (count, term, parents...) and read back as add_parent(parent, term)
    wb = prog.body(TI + "::parents_as_byte")
    rb = prog.one(r"^ontology::builder::Builder::<ontology::builder::AllTerms>::add_parent_from_bytes$")
    if wb is not None and rb is not None:
        seq = []
        for bi, t in wb.calls():
            if t.callee.method in ("append", "extend_from_slice", "extend", "push") and t.args and re.search(r"Vec::?<u8>", t.callee.def_args or ""):
                at = pvn.of_operand(wb, t.args[1])
                names = {a[1].rsplit("::", 1)[-1] for a in at if a[0] == "call"}
                if "len" in names:
                    lab = "count"
                elif "next" in names:
                    lab = "parent"
                elif "id" in names or ("field", TI, "id") in {(a[0], a[1], a[2]) for a in at if a[0] == "field"}:
                    lab = "term"
                else:
                    lab = "?"
                seq.append((bi, lab))
        order = [l for _, l in sorted(seq, key=lambda x: len([y for y, _ in seq if y != x[0] and wb.dominates(y, x[0])]))]
        if not order:
            ck.undecided("ROLE", "binary-edge/writer", "parents_as_byte does not append to a byte vector step by step (iterator chain?): the order of count, term and parents is decided by C07's LAYOUT rule only", where=wb.where())
        else:
            ck.ob("ROLE", "binary-edge/writer", order == ["count", "term", "parent"], "parents_as_byte writes %s (expected count, term, parent...)" % order, where=wb.where())
        loops = rb.natural_loops()
        for bi, t in rb.calls():
            if (t.callee.res or "").endswith("::add_parent_unchecked"):
                encl = sorted([(len(bl), h) for h, bl in loops.items() if bi in bl])
                if len(encl) < 2:
                    ck.undecided("ROLE", "binary-edge/reader", "nested read loops not recognised", where=rb.where(t.line))
                    continue
                inner = loops[encl[0][1]]

                def def_blocks(op):
                    out = set()
                    if op.place is None:
                        return out
                    work, seen = [op.place.local], set()
                    while work:
                        l = work.pop()
                        if l in seen:
                            continue
                        seen.add(l)
                        for kind, pos, d in pvn.defs(rb).get(l, []):
                            if kind == "call":
                                out.add(pos[0])
                            elif d.rv["k"] == "use" and d.rv["op"].place is not None:
                                work.append(d.rv["op"].place.local)
                            else:
                                out.add(pos[0])
                    return out
                pb, tb = def_blocks(t.args[1]), def_blocks(t.args[2])
                ok = bool(pb) and pb <= inner and bool(tb) and not (tb & inner)
                ck.ob("ROLE", "binary-edge/reader", ok, "add_parent_from_bytes links (id read %s the parent loop, id read %s the parent loop) as (parent, child)" % ("inside" if pb <= inner else "outside", "outside" if not (tb & inner) else "inside"), where=rb.where(t.line))

    # memo helper: a missing parent cache is computed on the not-cached edge
    memo = []
    for b in prog.production():
        if b.kind in ("Fn", "AssocFn"):
            for bi, t in b.calls():
                if (t.callee.res or "").endswith("HpoTermInternal::parents_cached"):
                    memo.append((b, bi, t))
    if not memo:
        ck.undecided("ROLE", "memo/edge", "no cache test (parents_cached) found")
    for b, bi, t in memo:
        calls = [(cbi, ct) for cbi, ct in b.calls() if ct.callee.res in cache_writers]
        pos = positive_edges(b, pvn, bi)
        if not calls or not pos:
            ck.undecided("ROLE", "memo/edge/" + b.short, "memoising shape not recognised", where=b.where())
            continue
        for cbi, ct in calls:
            on_cached = any(cbi in b.region(e) for e in pos)
            ck.ob("ROLE", "memo/edge/" + b.short, not on_cached, "%s computes a parent's cache %s" % (b.short, "when it is not cached yet" if not on_cached else "only when it is ALREADY cached (missing caches stay empty)"), where=b.where(ct.line))
    pc = prog.body(TI + "::parents_cached")
    if pc is not None:
        fl = codec.fields_read(prog, pc, TI_RX, depth=0)
        # another private representation of "cache built": a boolean STATE FLAG of the term that the cache-writing protocol maintains (every
        # writer of `all_parents` assigns it).  The emptiness table below does not apply to it; what is decided instead: outside the cache writers
        # the flag is only ever assigned a constant or or-ed / and-ed with itself - a plain `flag = <expression>` overwrites a pending state
        flag_fields = set()
        if "all_parents" not in fl:
            bool_fl = {f_ for f_ in fl if any(f2.get("name") == f_ and f2.get("ty") == "bool" for v_ in prog.adts.get(TI, {}).get("variants", []) for f2 in v_.get("fields", []))}
            for f_ in bool_fl:
                writers_f = {b_.id for b_ in prog.production() for _, s_ in b_.stmts() if s_.k == "assign" and any(e != "*" and e[0] == "f" and e[1] == f_ and e[2] == TI for e in s_.place.fields())}
                aw = {b_.id for b_ in prog.production() for _, s_ in b_.stmts() if s_.k == "assign" and any(e != "*" and e[0] == "f" and e[1] == "all_parents" and e[2] == TI for e in s_.place.fields()) and b_.name != "new"}
                if aw and aw <= writers_f | {x for x in aw if prog.bodies[x].name == "new"}:
                    flag_fields.add(f_)
        if flag_fields:
            ck.undecided("FIELD", "parents_cached", "parents_cached answers from the private state flag %s, which the writers of `all_parents` maintain: the emptiness table does not apply to this representation" % sorted(flag_fields), where=pc.where())
            for f_ in sorted(flag_fields):
                for b_ in sorted(prog.production(), key=lambda x: x.id):
                    if b_.name == "new" or b_.kind not in ("Fn", "AssocFn"):
                        continue
                    for (bb_, _i), s_ in b_.stmts():
                        if s_.k == "assign" and any(e != "*" and e[0] == "f" and e[1] == f_ and e[2] == TI for e in s_.place.fields()):
                            rv_ = s_.rv
                            const_ = rv_["k"] == "use" and rv_["op"].kind == "const"
                            selfop = rv_["k"] == "bin" and rv_["op"] in ("BitOr", "BitAnd") and any(o_.place is not None and any(e != "*" and e[0] == "f" and e[1] == f_ for e in o_.place.fields()) for o_ in (rv_["l"], rv_["r"]))
                            if not selfop and rv_["k"] == "use" and rv_["op"].place is not None and rv_["op"].place.is_local():
                                # `flag |= x` compiles to  tmp = BitOr(flag_copy, x); flag = tmp
                                for k2, p2, d2 in pvn.defs(b_).get(rv_["op"].place.local, []):
                                    if k2 == "assign" and d2.rv["k"] == "bin" and d2.rv["op"] in ("BitOr", "BitAnd"):
                                        for o_ in (d2.rv["l"], d2.rv["r"]):
                                            if o_.place is not None and (any(e != "*" and e[0] == "f" and e[1] == f_ for e in o_.place.fields()) or any(a[0] == "field" and a[2] == f_ and a[1] == TI for a in pvn.of_operand(b_, o_))):
                                                selfop = True
                            writes_cache = any(s2.k == "assign" and any(e != "*" and e[0] == "f" and e[1] == "all_parents" and e[2] == TI for e in s2.place.fields()) for _, s2 in b_.stmts())
                            if not const_ and not selfop and not writes_cache:
                                ck.ob("FIELD", "cache-flag/%s/%s" % (f_, b_.short), False, "%s ASSIGNS the cache-state flag `%s` a computed value: a state that was pending (set by an earlier call) is overwritten - e.g. a repeated is_a edge marks a cache valid that was never built; it takes `|=` / a constant" % (b_.short, f_), where=b_.where(s_.line))
                            elif not writes_cache:
                                ck.ob("FIELD", "cache-flag/%s/%s" % (f_, b_.short), True, "%s updates the cache-state flag `%s` with %s" % (b_.short, f_, "a constant" if const_ else "`|=` / `&=` on itself"), where=b_.where(s_.line))
        else:
          ck.ob("FIELD", "parents_cached", "all_parents" in fl, "parents_cached looks at %s (the closure set decides; see the truth table below)" % sorted(fl), where=pc.where())
        # exact truth table: cached <=> no direct parents OR the closure set is filled; nothing else (a flag of the term, ...) may answer "cached"
        import itertools
        from engines import bool_table, eval_bool_table
        pvf = Prov(prog, inline=False, mutflow=False)

        def call_atom(t, body):
            if t.callee.method == "is_empty" and len(t.args) == 1:
                f_ = field_names(pvf.of_operand(body, t.args[0]), "HpoTermInternal")
                if len(f_) == 1:
                    return ("empty", next(iter(f_)))
            return None

        def place_atom(pl, body):
            fs = [e for e in pl.fields() if e != "*"]
            if pl.local == 1 and len(fs) == 1 and fs[0][0] == "f":
                return ("flag", fs[0][1])
            return None
        rows = bool_table(pc, lambda *a: None, call_atom=call_atom, place_atom=place_atom) if not flag_fields else ()
        if flag_fields:
            pass
        elif rows is None:
            ck.undecided("FIELD", "parents_cached/table", "parents_cached is not a plain combination of emptiness tests", where=pc.where())
        else:
            keys = sorted({k for asg, r in rows for k in asg} | {r[1] for asg, r in rows if isinstance(r, tuple)})
            extra = [k for k in keys if k not in (("empty", "parents"), ("empty", "all_parents"))]
            bad = None
            for bits in itertools.product((False, True), repeat=len(keys)):
                full = dict(zip(keys, bits))
                got = eval_bool_table(rows, full)
                want = full.get(("empty", "parents"), False) or not full.get(("empty", "all_parents"), True)
                # "cached" must imply that the closure set is really there (answering "not cached" too often only recomputes)
                if got is None or (got and not want):
                    bad = (full, got, want)
                    break
            ck.ob("FIELD", "parents_cached/table", bad is None,
                  "parents_cached() implies parents.is_empty() || !all_parents.is_empty() (%d-row truth table over %s)" % (2 ** len(keys), ["%s.%s" % (k[1], k[0]) for k in keys]) if bad is None else
                  "parents_cached() answers `cached` for %s: a term with direct parents counts as cached while its closure set is still empty, and everything computed from it is incomplete" % ({"%s.%s" % (k[1], k[0]): v for k, v in bad[0].items()},), where=pc.where())

    # ------------------------------------------------------------------ FIELD: readers
    T = "term::hpoterm::HpoTerm::<'a>::"
    co = prog.body(T + "child_of")
    if ck.anchor("FIELD", "HpoTerm::child_of", co):
        cons = [(bi, t) for bi, t in co.calls() if t.callee.res == "term::group::HpoGroup::contains"]
        deleg = [(bi, t) for bi, t in co.calls() if t.callee.res in prog.bodies and t.callee.res != "term::group::HpoGroup::contains" and len(t.args) == 2
                 and params_of(pvn.of_operand(co, t.args[0]), co.id) == {1} and params_of(pvn.of_operand(co, t.args[1]), co.id) == {2}]
        straight = not any(co.blocks[x].term.k == "switch" for x in co.reach)
        if len(cons) != 1 and len(deleg) == 1 and straight and any(t.callee.method in ("is_some", "is_ok") for _, t in co.calls()):
            # `other_query(self, other).is_some()`: every explicit `Some` the delegate returns is an answer "is a descendant", and has to
            # stand behind a positive membership test of other.id in self's (direct or all) parents
            g = prog.bodies[deleg[0][1].callee.res]
            medges = []
            for gbi, gt in g.calls():
                if gt.callee.res == "term::group::HpoGroup::contains":
                    fr = field_names(pv.of_operand(g, gt.args[0]), "::HpoTerm")
                    fk = field_names(pv.of_operand(g, gt.args[1]), "::HpoTerm")
                    if fr & {"all_parents", "parents"} and "children" not in fr and params_of(pv.of_operand(g, gt.args[0]), g.id) == {1} and "id" in fk and params_of(pv.of_operand(g, gt.args[1]), g.id) == {2}:
                        medges += positive_edges(g, pvn, gbi)
            somes = [(pos, st) for pos, st in g.stmts() if st.k == "assign" and st.rv["k"] == "agg" and st.rv.get("variant") == "Some" and st.place.local == 0]
            loose = [(pos, st) for pos, st in somes if not any(g.edge_dominates(e, pos[0]) for e in medges)]
            if loose:
                ck.ob("FIELD", "child_of", False, "child_of answers through %s(..).is_some(), which returns `Some` at line %s without a positive test of other.id in self's ancestor sets: a pair outside the closure (the term itself) is reported as descendant" % (g.short, loose[0][1].line), where=co.where(deleg[0][1].line))
            else:
                ck.undecided("FIELD", "child_of", "child_of delegates to %s; only its explicit `Some` results were compared with the closure membership" % g.short, where=co.where())
        elif len(cons) != 1:
            ck.undecided("FIELD", "child_of", "membership test not recognised", where=co.where())
        else:
            bi, t = cons[0]
            r = pv.of_operand(co, t.args[0])
            k = pv.of_operand(co, t.args[1])
            fr, fk = field_names(r, "::HpoTerm"), field_names(k, "::HpoTerm")
            ok = "all_parents" in fr and "parents" not in fr and params_of(r, co.id) == {1} and "id" in fk and params_of(k, co.id) == {2}
            ck.ob("FIELD", "child_of", ok, "child_of tests self.%s for other.%s" % ("/".join(sorted(fr & {"all_parents", "parents", "children"})), "/".join(sorted(fk & {"id"})) or "?"), where=co.where(t.line))
            neg = any(a[0] == "op" and a[1] == "Not" for a in pvn.of_local(co, 0))
            ck.ob("FIELD", "child_of/polarity", not neg, "child_of returns the membership %s" % ("positively" if not neg else "NEGATED"), where=co.where())
    po = prog.body(T + "parent_of")
    if po is not None and co is not None:
        calls = [(bi, t) for bi, t in po.calls() if t.callee.res == co.id]
        if not calls:
            ck.undecided("FIELD", "parent_of", "parent_of does not delegate to child_of", where=po.where())
        for bi, t in calls:
            a0 = params_of(pvn.of_operand(po, t.args[0]), po.id)
            a1 = params_of(pvn.of_operand(po, t.args[1]), po.id)
            ck.ob("FIELD", "parent_of", a0 == {2} and a1 == {1}, "parent_of(self, other) = child_of(%s, %s)" % ("other" if a0 == {2} else "self", "self" if a1 == {1} else "other"), where=po.where(t.line))
    for nm in ("distance_to_ancestor", "path_to_ancestor"):
        b = prog.body(T + nm)
        if b is None:
            continue
        cons = [(bi, t) for bi, t in b.calls() if t.callee.res == "term::group::HpoGroup::contains"]
        closure_tests = []
        for bi, t in cons:
            fr = field_names(pv.of_operand(b, t.args[0]), "::HpoTerm")
            if "all_parents" in fr:
                closure_tests.append((bi, t))
        # `self.child_of(other)` / `other.parent_of(self)` is the same test (child_of itself is decided by FIELD/child_of)
        via_pred = {}
        for bi, t in b.calls():
            if co is not None and t.callee.res == co.id and len(t.args) == 2:
                via_pred[bi] = (params_of(pvn.of_operand(b, t.args[0]), b.id), params_of(pvn.of_operand(b, t.args[1]), b.id))
                closure_tests.append((bi, t))
            elif po is not None and t.callee.res == po.id and len(t.args) == 2:
                via_pred[bi] = (params_of(pvn.of_operand(b, t.args[1]), b.id), params_of(pvn.of_operand(b, t.args[0]), b.id))
                closure_tests.append((bi, t))
        if not closure_tests:
            from engines import private_scope
            far = [xb for xb in private_scope(prog, b) if xb.id != b.id and any(t_.callee.res == "term::group::HpoGroup::contains" and "all_parents" in field_names(pv.of_operand(xb, t_.args[0]), "::HpoTerm") or (co is not None and t_.callee.res == co.id) for _, t_ in xb.calls())]
            if far:
                ck.undecided("FIELD", nm + "/prune", "%s tests the closure set in private code outside its own body (%s): the shape of the pruning is not read there" % (nm, far[0].short), where=b.where())
            else:
                ck.ob("FIELD", nm + "/prune", False, "%s has no pruning test on the closure set: unrelated terms are searched / reported" % nm, where=b.where())
        for bi, t in closure_tests:
            k = pv.of_operand(b, t.args[1])
            if bi in via_pred:
                ok = via_pred[bi] == ({1}, {2})
            else:
                ok = params_of(pv.of_operand(b, t.args[0]), b.id) == {1} and params_of(k, b.id) == {2} and "id" in field_names(k, "::HpoTerm")
            # the negative edge returns None
            pe = positive_edges(b, pvn, bi)
            none_on_neg = False
            for (sbi, tg) in pe:
                x = b.blocks[sbi].term
                for o in x.successors():
                    if o != tg:
                        for r in b.region((sbi, o)):
                            for st in b.blocks[r].stmts:
                                if st.k == "assign" and st.place.local == 0 and st.rv["k"] == "agg" and st.rv.get("variant") == "None":
                                    none_on_neg = True
            if not (ok and none_on_neg) and b.loop_of(bi) is not None:
                ck.undecided("FIELD", nm + "/prune", "%s is iterative: the closure-set test prunes inside a loop (its failing side skips one candidate instead of returning None)" % nm, where=b.where(t.line))
                continue
            ck.ob("FIELD", nm + "/prune", ok and none_on_neg, "%s returns None unless other.id is in self.all_parents" % nm if ok and none_on_neg else "%s: pruning test does not have the shape `!self.all_parents.contains(other.id) -> None`" % nm, where=b.where(t.line))

    # ---- accessors: a method named after a field returns that field, not a sibling of the same type
    ck.rule("GETTER", "an accessor `f()` / `f_mut()` of a struct with a field `f` (or its documented alias) derives its result from that field (DESIGN 3.9)")
    from engines import check_getters
    check_getters(ck, "GETTER", prog, r"^src/term/(internal|hpoterm)\.rs$", floor=10)

    # ---- constructors: a field named like a parameter is initialised from that parameter, not from a sibling of the same type
    ck.rule("CTOR", "in a struct literal, the field `f` of a function with a parameter `f` derives from that parameter (DESIGN 3.9)")
    from engines import check_ctors
    check_ctors(ck, "CTOR", prog, r"^src/term/(internal|hpoterm)\.rs$|^src/term\.rs$", floor=2)
