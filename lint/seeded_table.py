"""Regenerates the table of independently seeded changes in DESIGN.md (between the SEEDED-TABLE markers) from seeded/*/meta.json."""
import json
import os
import re

HERE = os.path.dirname(os.path.abspath(__file__))
VERIF = os.path.dirname(HERE)
BEGIN, END = "<!-- SEEDED-TABLE-BEGIN -->", "<!-- SEEDED-TABLE-END -->"


def short(s, n):
    s = re.sub(r"\s+", " ", s or "").replace("|", "/")
    return s if len(s) <= n else s[: n - 1].rstrip() + "…"


def rows():
    out = []
    for d in sorted(os.listdir(os.path.join(VERIF, "seeded"))):
        mp = os.path.join(VERIF, "seeded", d, "meta.json")
        if not os.path.exists(mp):
            continue
        with open(mp) as f:
            m = json.load(f)
        reports = []
        for pid in m.get("caught_by", []):
            for line in m["checks"][pid]["reports"][:1]:
                # "C17 PAIR src/stats/linkage.rs:497: message"
                mm = re.match(r"^(C\d\d) (\w+) (\S+?):(\d+)?:? (.*)$", line)
                reports.append("%s %s: %s" % (pid, mm.group(2), short(mm.group(5), 110)) if mm else short(line, 130))
        out.append("| `%s` | %s | %s | %s | %s | %s |" % (
            d, m["property"], m.get("round", "?"), short(m.get("needs"), 170), short(m.get("first_run", "?"), 60),
            "<br>".join(reports) if reports else "**not caught**"))
    return out


def main():
    head = ["| seeded change (`/verif/seeded/<name>/`) | property | round | needs, in order to manifest | first run of the checks | reported today by (first report of each catching check) |",
            "|---|---|---|---|---|---|"]
    table = "\n".join(head + rows())
    p = os.path.join(VERIF, "DESIGN.md")
    with open(p) as f:
        s = f.read()
    if BEGIN in s:
        s = s[: s.index(BEGIN) + len(BEGIN)] + "\n" + table + "\n" + s[s.index(END):]
        with open(p, "w") as f:
            f.write(s)
    else:
        print(table)


if __name__ == "__main__":
    main()


RB, RE_ = "<!-- REFACTOR-TABLE-BEGIN -->", "<!-- REFACTOR-TABLE-END -->"


def refactor_rows():
    out = []
    base = os.path.join(VERIF, "refactors")
    for d in sorted(os.listdir(base)) if os.path.isdir(base) else []:
        mp = os.path.join(base, d, "meta.json")
        if not os.path.exists(mp):
            continue
        with open(mp) as f:
            m = json.load(f)
        und = m.get("undecided") or {}
        out.append("| `%s` | %s | %s | %s | %s | %s |" % (d, m["property"], m.get("lines_changed", "?"), short(m.get("first_run", "?"), 260),
                                                     "none" if not m.get("alarms") else "**%s**" % ", ".join(m["alarms"]), ", ".join("%s: %d" % kv for kv in sorted(und.items())) or "-"))
    return out


def refactor_main():
    head = ["| refactoring (`/verif/refactors/<name>/`) | written for | changed lines | alarms on arrival (all of them false) | alarms today | rule instances undecided on the refactored tree |",
            "|---|---|---|---|---|---|"]
    table = "\n".join(head + refactor_rows())
    p = os.path.join(VERIF, "DESIGN.md")
    with open(p) as f:
        s = f.read()
    if RB in s:
        s = s[: s.index(RB) + len(RB)] + "\n" + table + "\n" + s[s.index(RE_):]
        with open(p, "w") as f:
            f.write(s)
    else:
        print(table)


if __name__ == "__main__":
    refactor_main()
