"""Rule engines shared by the property checks (PANIC, mutation summaries, ATOMIC, KIND labels, helpers)."""
import re
import facts
from collections import defaultdict

import prov as provmod
from prov import Prov, params_of

# =====================================================================================================
# Trusted summaries of code that is not analysed (std / smallvec / hashbrown / tracing): DESIGN §3.0
# =====================================================================================================

# --- may panic (method name, optional predicate on callee)
PANIC_TRAITS = {("std::ops::Index", "index"), ("std::ops::IndexMut", "index_mut")}
PANIC_METHODS_OPTRES = {"unwrap", "expect", "unwrap_err", "expect_err"}
PANIC_PATH_RX = re.compile(
    r"(core::panicking::|std::rt::begin_panic|std::rt::panic|core::option::unwrap_failed|core::option::expect_failed|"
    r"core::result::unwrap_failed|core::panic|std::panic::|core::slice::index::slice_|core::str::slice_error_fail|"
    r"core::panicking|::assert_failed|core::cell::panic_already)"
)
PANIC_CONTAINER_METHODS = {
    # (impl-self regex, methods)
    (r"^std::vec::Vec<", ("insert", "remove", "swap_remove", "split_off", "drain", "truncate_DISABLED")),
    (r"^smallvec::SmallVec<", ("insert", "remove", "swap_remove", "drain", "insert_many")),
    (r"^\[", ("copy_from_slice", "clone_from_slice", "split_at", "split_at_mut", "swap", "chunks", "windows", "rotate_left", "rotate_right")),
    (r"^std::cell::RefCell<", ("borrow", "borrow_mut")),
    (r"^str$", ("split_at",)),
}
PANIC_ITER_METHODS = {"step_by"}

# --- explicitly total std callees (method names); anything std that is neither in the panic tables nor
#     here is reported as UNDECIDED by the PANIC rule, never as a violation
TOTAL_METHODS = {
    "wrapping_sub", "wrapping_add", "wrapping_mul", "checked_add", "checked_sub", "checked_mul", "saturating_sub", "saturating_add", "is_ascii_digit",
    "len", "get", "get_mut", "parse", "is_char_boundary", "starts_with", "ends_with", "strip_prefix", "strip_suffix",
    "split", "splitn", "split_once", "contains", "contains_key", "ok_or", "ok_or_else", "map", "and_then", "is_none",
    "is_some", "branch", "from_residual", "into", "from", "try_into", "try_from", "ok", "err", "iter", "into_iter",
    "next", "find", "filter", "any", "all", "values", "keys", "eq", "ne", "lt", "le", "gt", "ge", "cmp", "partial_cmp",
    "deref", "deref_mut", "as_ref", "as_str", "as_bytes", "clone", "copied", "cloned", "to_string", "to_owned", "by_ref",
    "map_err", "is_empty", "first", "last", "binary_search", "is_ok", "is_err", "fmt", "default", "new", "with_capacity",
    "hash", "borrow", "to_usize_DISABLED", "trim", "lines", "min", "max", "unwrap_or", "unwrap_or_else", "unwrap_or_default",
    "map_or", "map_or_else", "filter_map", "collect", "count", "sum", "fold", "rev", "skip", "chain", "take", "enumerate",
    "zip", "position", "min_by_key", "max_by_key", "reduce", "for_each", "flat_map", "copied", "once", "as_slice", "get_unchecked_DISABLED",
    "write_fmt", "write_str", "new_const", "new_v1", "new_display", "new_debug", "none", "from_str", "to_lowercase", "push",
    "push_str", "append", "extend", "extend_from_slice", "clear", "to_vec", "to_be_bytes", "from_be_bytes", "entry", "or_insert",
    "or_insert_with", "and_modify", "retain", "difference", "union", "intersection", "bitor", "bitand", "exp", "ln", "abs",
    "display", "join", "replace", "call", "call_mut", "call_once", "drop", "size_hint", "next_back", "saturating_sub",
    "is_ascii_digit", "chars", "char_indices", "bytes", "peekable", "find_map", "then", "then_some", "not", "as_deref",
    "capacity", "reserve", "from_utf8", "into_boxed_slice", "into_vec", "discriminant_value", "metadata", "open", "read_to_end",
    "read_to_string", "read_line", "as_mut", "inspect", "take_while", "skip_while", "flatten", "insert_DISABLED", "remove_entry",
}


def callee_may_panic(c):
    """True / False / None(unknown std callee)"""
    if c.indirect:
        return None
    n = c.name
    m = c.method
    if (c.trait, m) in PANIC_TRAITS:
        return True
    imp = c.impl_self or ""
    if m in PANIC_METHODS_OPTRES and (imp.startswith("std::option::Option") or imp.startswith("std::result::Result")):
        return True
    if PANIC_PATH_RX.search(n) or PANIC_PATH_RX.search(c.deff or ""):
        return True
    for rx, ms in PANIC_CONTAINER_METHODS:
        if m in ms and re.search(rx, imp):
            return True
    if m in PANIC_ITER_METHODS and c.trait == "std::iter::Iterator":
        return True
    if m in TOTAL_METHODS:
        return False
    return None


def is_tracing(exp):
    return bool(exp) and exp.startswith("m:tracing")


class PanicScan:
    """PANIC: no may-panic construct in any crate body reachable from the entry points."""

    def __init__(self, prog, exemptions=None, assume_total=None):
        self.prog = prog
        self.exemptions = exemptions or {}  # (function id regex, construct regex) -> reason
        self.assume_total = assume_total or []  # regexes of unresolved callees assumed total (with reason)

    def scan(self, entry_ids):
        """returns (findings, undecided, stats): finding = dict(body, pos, construct, line)"""
        reach = self.prog.reachable_bodies(entry_ids)
        findings, undecided = [], []
        exempted = []
        n_calls = 0
        n_asserts = 0
        for bid in sorted(reach):
            b = self.prog.bodies[bid]
            for bi in sorted(b.reach):
                blk = b.blocks[bi]
                t = blk.term
                if is_tracing(t.exp):
                    continue
                construct = None
                unknown = None
                if t.k == "assert":
                    n_asserts += 1
                    construct = "assert:" + t.msg
                    # arithmetic on two compile-time constants (`PREFIX_LEN + 1`): the overflow check is evaluated by the compiler; an
                    # overflowing constant expression is a compile error (deny-by-default lint), so the assert cannot fire at run time
                    if "Overflow" in (t.msg or "") and t.cond.place is not None:
                        src = [st for st in blk.stmts if st.k == "assign" and st.place.is_local() and st.place.local == t.cond.place.local and st.rv["k"] == "bin"]
                        if src and src[-1].rv["l"].kind == "const" and src[-1].rv["r"].kind == "const":
                            continue
                        # `n.get() - 1` for a NonZero integer: the minuend is >= 1 by the type's invariant
                        if src and src[-1].rv["op"].startswith("Sub") and src[-1].rv["r"].kind == "const" and src[-1].rv["r"].int_value() == 1 and src[-1].rv["l"].place is not None and src[-1].rv["l"].place.is_local():
                            ml = src[-1].rv["l"].place.local
                            dfs = [(bj, tj) for bj, tj in b.calls() if tj.dest is not None and tj.dest.is_local() and tj.dest.local == ml]
                            if len(dfs) == 1 and dfs[0][1].callee.method == "get" and "NonZero" in ((dfs[0][1].callee.name or "") + (dfs[0][1].callee.def_args or "")) and not [st for _, st in b.stmts() if st.k == "assign" and st.place.is_local() and st.place.local == ml]:
                                continue
                        # an accumulation (`acc * 10 + d`) in a loop whose trip count is capped by a length test against a constant before the
                        # loop: whether the cap keeps the value in range is a question about runtime values - not decided (a loop with NO such cap
                        # stays a finding: any long enough input overflows)
                        if src and all(self._internal_value(b, src[-1].rv[k_]) for k_ in ("l", "r")) and not all(src[-1].rv[k_].kind == "const" for k_ in ("l", "r")):
                            undecided.append({"body": b, "pos": (bi, len(blk.stmts)), "construct": "assert:Overflow of `%s` on values computed from the structure's own fields (an invariant of the data structure, not a caller's value): not decided" % src[-1].rv["op"].replace("WithOverflow", ""), "line": t.line})
                            continue
                        if src and self._value_guarded(b, bi, src[-1]):
                            undecided.append({"body": b, "pos": (bi, len(blk.stmts)), "construct": "assert:Overflow of `%s` on a value that a test on the way restricts (%s): whether the restriction excludes the overflow is a question about runtime values" % (src[-1].rv["op"].replace("WithOverflow", ""), self._value_guarded(b, bi, src[-1])), "line": t.line})
                            continue
                        if src and src[-1].rv["op"].startswith(("Add", "Mul")) and self._capped_loop(b, bi):
                            undecided.append({"body": b, "pos": (bi, len(blk.stmts)), "construct": "assert:Overflow of an accumulation in a loop whose trip count is capped by a constant (value range not computed)", "line": t.line})
                            continue
                elif t.k == "call":
                    n_calls += 1
                    c = t.callee
                    if c.res and c.res in self.prog.bodies:
                        continue  # analysed as a body of the reachable set
                    if c.res is None and c.deff in self.prog.bodies:
                        continue
                    mp = callee_may_panic(c)
                    if mp is True and c.method in ("expect", "unwrap") and re.search(r"Result::<usize, std::num::TryFromIntError>", c.def_args or "") and t.args:
                        # `usize::try_from(x: u32 | u16 | u8).expect(..)`: infallible on every target the crate supports (pointer width >= 32, the same
                        # assumption as the exemption of HpoTermId::to_usize)
                        srcs_ = [a for a in self._pvn_of(b, t.args[0]) if a[0] == "call" and a[3] == b.id and re.search(r"<usize as std::convert::TryFrom<(u32|u16|u8)>>::try_from|<(u32|u16|u8) as std::convert::TryInto<usize>>::try_into", a[2] or "")]
                        if srcs_:
                            continue
                    if mp is True and c.trait in ("std::ops::Index", "std::ops::IndexMut") and len(t.args) == 2 and re.search(r"Index(Mut)?<usize>", c.def_args or ""):
                        why_ = self._index_guarded(b, bi, t)
                        if why_:
                            undecided.append({"body": b, "pos": (bi, len(blk.stmts)), "construct": "assert:index into a private table with %s: in bounds by an invariant / a test on runtime values, not decided" % why_, "line": t.line})
                            continue
                    if mp is True and (c.method in ("split_at", "split_at_mut") or (c.trait in ("std::ops::Index", "std::ops::IndexMut") and re.search(r"Index(Mut)?<std::ops::Range", c.def_args or ""))) and len(t.args) == 2:
                        at_ = self._pvn_of(b, t.args[1])
                        if any(a[0] == "call" and a[1] in self.prog.bodies for a in at_) or any(a[0] == "op" for a in at_):
                            undecided.append({"body": b, "pos": (bi, len(blk.stmts)), "construct": "assert:slice split / range index at a position computed by crate code / arithmetic (not a caller's raw value): in bounds by an invariant, not decided", "line": t.line})
                            continue
                    if mp is True:
                        construct = "call:" + (c.def_args or c.name)
                    elif mp is None:
                        nm = c.def_args or c.name
                        if any(re.search(rx, nm) for rx, _ in self.assume_total):
                            continue
                        unknown = nm
                if construct is not None:
                    ex = self._exempt(b, construct)
                    rec = {"body": b, "pos": (bi, len(blk.stmts)), "construct": construct, "line": t.line}
                    if ex:
                        rec["reason"] = ex
                        exempted.append(rec)
                    else:
                        findings.append(rec)
                elif unknown is not None:
                    undecided.append({"body": b, "pos": (bi, len(blk.stmts)), "construct": unknown, "line": t.line})
        stats = {"reachable_bodies": len(reach), "calls": n_calls, "asserts": n_asserts, "exempted": exempted}
        return findings, undecided, stats

    def _pvn_of(self, b, op):
        from prov import Prov
        if not hasattr(self, "_pvn"):
            self._pvn = Prov(self.prog, inline=False)
        return self._pvn.of_operand(b, op)

    def _internal_value(self, b, op):
        """the operand is computed from the structure's own state only (fields of `self`, constants, calls on those): no parameter other than
        `self` of the function (for a closure: of the function it is written in) flows into it.  Such a value is as good as the data-structure
        invariant behind it - the caller cannot choose it."""
        from prov import Prov
        if not hasattr(self, "_pvn"):
            self._pvn = Prov(self.prog, inline=False)
        if op.kind == "const":
            return True
        if op.place is None:
            return False
        root = self.prog.bodies.get(b.root) if b.kind == "Closure" and b.root in self.prog.bodies else b
        at = self._pvn.of_operand(b, op)
        if not at:
            return False
        for a in at:
            if a[0] == "param" and a[1] == root.id and not (a[2] == 1 and root.arg_names.get(1) == "self"):
                return False
            if a[0] == "param" and a[1] == b.id and b.kind != "Closure" and not (a[2] == 1 and b.arg_names.get(1) == "self"):
                return False
            if a[0] == "upvar":
                return False
        return any(a[0] == "field" for a in at)

    def _index_guarded(self, b, bi, t):
        if self._internal_value(b, t.args[1]):
            return "an index computed from the structure's own fields"
        if b.kind == "Closure" and t.args[1].place is not None:
            # `.map(|pos| table[pos])` / `.find(|&slot| terms[slot] ..)`: the index is what an adaptor hands to the closure (an element of a table, the
            # position a search returned) - a caller's raw value reaches a closure as a captured variable, not as its parameter
            from prov import Prov
            if not hasattr(self, "_pvn"):
                self._pvn = Prov(self.prog, inline=False)
            rs = user_root_locals(b, self._pvn, t.args[1], stop=set(range(2, b.nargs + 1)))
            if rs:
                return "an index that is the closure's own parameter (handed in by an iterator adaptor / Option combinator)"
        """`table[i]` where i is not a caller's raw value: (a) computed to fit (`& mask`, `% len`, a `binary_search` / `position` hit), (b) read out
        of one of the structure's own tables (a stored slot), (c) restricted by a comparison on the way.  Returns a description or None."""
        from prov import Prov
        if not hasattr(self, "_pvn"):
            self._pvn = Prov(self.prog, inline=False)
        pvn = self._pvn
        at = pvn.of_operand(b, t.args[1])
        if any(a[0] == "op" and str(a[1]).startswith(("BitAnd", "Rem")) for a in at):
            return "an index reduced by `&` / `%`"
        if any(a[0] == "call" and a[3] == b.id and re.search(r"::(binary_search\w*|position|rposition|partition_point)$", a[1]) for a in at):
            return "the position a search returned"
        fl = {a[2] for a in at if a[0] == "field"} - {"0", "1"}
        if fl and not any(a[0] == "param" and a[2] != 1 for a in at):
            return "a value read from the structure's own field(s) %s" % "/".join(sorted(fl))
        rs = user_root_locals(b, pvn, t.args[1]) if t.args[1].place is not None else set()
        for sb in sorted(b.reach):
            x = b.blocks[sb].term
            if x.k != "switch" or not any(b.edge_dominates((sb, tg), bi) for tg in x.successors()):
                continue
            ds = pvn.defs(b).get(x.discr.place.local, []) if x.discr.place is not None else []
            for k_, p_, d_ in ds:
                if k_ == "assign" and d_.rv["k"] == "bin" and d_.rv["op"] in ("Lt", "Le", "Gt", "Ge") and ((user_root_locals(b, pvn, d_.rv["l"]) if d_.rv["l"].place is not None else set()) | (user_root_locals(b, pvn, d_.rv["r"]) if d_.rv["r"].place is not None else set())) & rs:
                    return "an index that a comparison on the way restricts"
        return None

    def _value_guarded(self, b, bi, st):
        """the arithmetic whose overflow check sits in block bi works on a value that is TESTED on the way: (Sub) a predicate / comparison on the
        minuend's variable dominates the block (`if !byte.is_ascii_digit() { return }; byte - b'0'`); (Add / Mul in a loop) the accumulator's variable
        is compared with something inside the same loop with a way out (`if number > MAX { return }`).  Returns a description or None."""
        from prov import Prov
        if not hasattr(self, "_pvn"):
            self._pvn = Prov(self.prog, inline=False)
        pvn = self._pvn
        op = st.rv["op"]

        def roots(o):
            return user_root_locals(b, pvn, o) if o.place is not None else set()
        if op.startswith("Sub"):
            rs = roots(st.rv["l"])
            if not rs:
                return None
            for sb in sorted(b.reach):
                x = b.blocks[sb].term
                if x.k != "switch" or not any(b.edge_dominates((sb, tg), bi) for tg in x.successors()):
                    continue
                for a in pvn.of_operand(b, x.discr):
                    if a[0] == "call" and a[3] == b.id:
                        ct = b.blocks[a[4]].term
                        if any(roots(arg) & rs for arg in ct.args):
                            return "`%s` on `%s`" % (ct.callee.method, "/".join(b.local_name(r) for r in sorted(rs)))
                ds = pvn.defs(b).get(x.discr.place.local, []) if x.discr.place is not None else []
                for k_, p_, d_ in ds:
                    if k_ == "assign" and d_.rv["k"] == "bin" and d_.rv["op"] in ("Lt", "Le", "Gt", "Ge", "Eq", "Ne") and (roots(d_.rv["l"]) | roots(d_.rv["r"])) & rs:
                        return "a comparison of `%s`" % "/".join(b.local_name(r) for r in sorted(rs))
            return None
        if op.startswith(("Add", "Mul")):
            lp = b.loop_of(bi)
            if not lp:
                return None
            rs = roots(st.rv["l"]) | roots(st.rv["r"])
            # the variable the result is stored into
            for (pb, _i), s2 in b.stmts():
                if pb in lp[1] and s2.k == "assign" and s2.place.is_local() and s2.place.local in b.debug and s2.rv["k"] == "use" and s2.rv["op"].place is not None:
                    rs |= {s2.place.local} if s2.place.local in rs or True else set()
            acc = {r for r in rs if any(pb in lp[1] and s2.k == "assign" and s2.place.is_local() and s2.place.local == r for (pb, _i), s2 in b.stmts())}
            for (pb, _i), s2 in b.stmts():
                if pb in lp[1] and s2.k == "assign" and s2.rv["k"] == "bin" and s2.rv["op"] in ("Lt", "Le", "Gt", "Ge") and (roots(s2.rv["l"]) | roots(s2.rv["r"])) & acc:
                    # ... with a way out of the loop under it
                    if any(y not in lp[1] for x2 in lp[1] for y in b.succ[x2] if b.dominates(pb, x2)):
                        return "a comparison of the accumulator `%s` inside the loop" % "/".join(b.local_name(r) for r in sorted(acc & (roots(s2.rv["l"]) | roots(s2.rv["r"]))))
            return None
        return None

    def _capped_loop(self, b, bi):
        lp = b.loop_of(bi)
        if not lp:
            return False
        header = lp[0]
        lens = set()
        for _, st in b.stmts():
            if st.k == "assign" and st.place.is_local() and st.rv["k"] == "un" and st.rv["op"] == "PtrMetadata":
                lens.add(st.place.local)
        for _, tj in b.calls():
            if tj.callee.method == "len" and tj.dest is not None and tj.dest.is_local():
                lens.add(tj.dest.local)
        grow = True
        while grow:
            grow = False
            for _, st in b.stmts():
                if st.k == "assign" and st.place.is_local() and st.place.local not in lens and st.rv["k"] == "use" and st.rv["op"].place is not None and st.rv["op"].place.is_local() and st.rv["op"].place.local in lens:
                    lens.add(st.place.local)
                    grow = True
        for (cbi, _i), st in b.stmts():
            if st.k == "assign" and st.rv["k"] == "bin" and st.rv["op"] in ("Gt", "Ge", "Lt", "Le") and cbi not in lp[1] and b.dominates(cbi, header):
                l_, r_ = st.rv["l"], st.rv["r"]
                for x, y in ((l_, r_), (r_, l_)):
                    if x.place is not None and x.place.is_local() and x.place.local in lens and y.kind == "const" and y.int_value() is not None:
                        return True
        return False

    def _exempt(self, b, construct):
        for (frx, crx), reason in self.exemptions.items():
            if re.search(frx, b.id) and re.search(crx, construct):
                return reason
        return None


# =====================================================================================================
# Mutation / reference-derivation summaries
# =====================================================================================================

HANDLE_ADTS = (
    "std::collections::hash_map::VacantEntry", "std::collections::hash_map::OccupiedEntry", "std::collections::hash_map::Entry",
    "std::slice::IterMut", "std::collections::hash_map::IterMut", "std::collections::hash_map::ValuesMut", "std::vec::Drain",
)
# std callees that take &mut but only hand out a reference / handle (no mutation of the pointee by themselves)
NON_MUTATING_MUT = {
    "get_mut", "entry", "iter_mut", "index_mut", "deref_mut", "as_mut", "values_mut", "as_mut_slice", "by_ref", "borrow_mut",
    "get_unchecked_mut", "last_mut", "first_mut", "next", "split_at_mut", "peek", "as_mut_ptr", "into_iter", "iter", "find",
    "map", "ok_or", "branch", "expect", "unwrap", "filter", "any", "all", "and_then", "ok_or_else", "from_residual",
    "enumerate", "rev", "zip", "chain", "skip", "take", "for_each_DISABLED", "into_mut", "get", "key", "copied", "cloned",
}


def is_ref_like(ty):
    if ty["k"] in ("ref", "refmut", "ptr"):
        return True
    s = ty["s"]
    return "&" in s or any(h.rsplit("::", 1)[-1] + "<" in s for h in HANDLE_ADTS)


def is_mut_capable(ty):
    """a value through which storage can be mutated: &mut T, or a by-value handle borrowing from &mut"""
    if ty["k"] == "refmut":
        return True
    s = ty["s"]
    if "&mut " in s:
        return True
    return any(h.rsplit("::", 1)[-1] + "<" in s for h in HANDLE_ADTS)


class RefDeriv:
    """Which parameters' storage a reference-like local may point into (pointer derivation, not data flow)."""

    def __init__(self, prog):
        self.prog = prog
        self.pv = Prov(prog)
        self._memo = {}

    def roots(self, body, local):
        """set of ('param', i) | ('local', l) | ('static',)"""
        key = (body.id, local)
        if key in self._memo:
            return self._memo[key]
        self._memo[key] = frozenset()
        out = set()
        seen = set()
        work = [local]
        defs = self.pv.defs(body)
        while work:
            l = work.pop()
            if l in seen:
                continue
            seen.add(l)
            if 1 <= l <= body.nargs:
                out.add(("param", l))
            for kind, pos, d in defs.get(l, []):
                if kind == "assign":
                    rv = d.rv
                    k = rv["k"]
                    if k in ("ref", "rawptr"):
                        pl = rv["place"]
                        if "*" in pl.fields():
                            work.append(pl.local)
                        else:
                            # borrow of (part of) a local's own storage
                            if 1 <= pl.local <= body.nargs:
                                out.add(("param", pl.local))
                            elif is_ref_like(body.locals[pl.local]) and [e for e in pl.fields()]:
                                work.append(pl.local)  # field of a struct that holds references
                            else:
                                out.add(("local", pl.local))
                    elif k == "use" and rv["op"].place is not None:
                        work.append(rv["op"].place.local)
                    elif k == "cast" and rv["op"].place is not None:
                        work.append(rv["op"].place.local)
                    elif k == "agg":
                        for o in rv["ops"]:
                            if o.place is not None and is_ref_like(body.locals[o.place.local]):
                                work.append(o.place.local)
                else:
                    t = d
                    if not is_ref_like(body.locals[t.dest.local]):
                        continue
                    for a in t.args:
                        if a.place is not None and is_ref_like(body.locals[a.place.local]):
                            work.append(a.place.local)
        res = frozenset(out)
        self._memo[key] = res
        return res


class MutSummary:
    """may-mutate-through-arg: does a crate-local function write through its parameter i?"""

    def __init__(self, prog, refderiv=None):
        self.prog = prog
        self.rd = refderiv or RefDeriv(prog)
        self._memo = {}

    def std_mutates(self, callee):
        m = callee.method
        if m in NON_MUTATING_MUT:
            return False
        return True

    def mutation_sites(self, body, through_params=None):
        """positions in `body` that write through storage derived from one of `through_params`
        (default: any parameter).  yields dict(pos, kind, callee, params, term/stmt)"""
        out = []
        for pos, s in body.stmts():
            if s.k not in ("assign", "setdiscr"):
                continue
            if "*" in s.place.fields():
                roots = self.rd.roots(body, s.place.local)
                ps = {r[1] for r in roots if r[0] == "param"}
                if through_params is not None:
                    ps &= set(through_params)
                if ps:
                    out.append({"pos": pos, "kind": "assign", "what": "assignment through %r" % s.place, "params": ps, "line": s.line, "callee": None})
        for bi, t in body.calls():
            pos = (bi, len(body.blocks[bi].stmts))
            c = t.callee
            for ai, a in enumerate(t.args):
                if a.place is None:
                    continue
                ty = body.locals[a.place.local]
                if "{closure" in ty["s"] and a.place.is_local():
                    # a closure that captured a `&mut` into parameter storage and writes through it (`.map_err(|i| self.ids.insert(i, id))`)
                    hit = self._closure_arg_mutation(body, a.place.local, through_params)
                    if hit:
                        out.append({"pos": pos, "kind": "call", "what": "call of %s with a closure that writes through its capture" % (c.def_args or c.name), "params": hit, "line": t.line, "callee": c, "term": t, "arg": ai})
                        break
                    continue
                if not is_mut_capable(ty):
                    continue
                roots = self.rd.roots(body, a.place.local)
                ps = {r[1] for r in roots if r[0] == "param"}
                if through_params is not None:
                    ps &= set(through_params)
                if not ps:
                    continue
                if self.call_mutates(c, ai):
                    out.append({"pos": pos, "kind": "call", "what": "call of %s" % (c.def_args or c.name), "params": ps, "line": t.line, "callee": c, "term": t, "arg": ai})
                    break
        return out

    def _closure_arg_mutation(self, body, local, through_params):
        """parameters of `body` whose storage a closure value (held in `local`) mutates through a captured `&mut`"""
        ps = set()
        seen = set()
        work = [local]
        defs = self.rd.pv.defs(body)
        while work:
            l = work.pop()
            if l in seen:
                continue
            seen.add(l)
            for kind, pos, d in defs.get(l, []):
                if kind != "assign":
                    continue
                rv = d.rv
                if rv["k"] == "use" and rv["op"].place is not None:
                    work.append(rv["op"].place.local)
                elif rv["k"] == "agg" and rv.get("agg") == "closure":
                    cb = self.prog.bodies.get(rv["closure"])
                    if cb is None or not self.mutates(cb, 1):
                        continue
                    for o in rv["ops"]:
                        if o.place is not None and is_mut_capable(body.locals[o.place.local]):
                            ps |= {r[1] for r in self.rd.roots(body, o.place.local) if r[0] == "param"}
        if through_params is not None:
            ps &= set(through_params)
        return ps

    def call_mutates(self, callee, argindex):
        tgt = None
        if callee.res and callee.res in self.prog.bodies:
            tgt = self.prog.bodies[callee.res]
        elif callee.res is None and callee.deff in self.prog.bodies:
            tgt = self.prog.bodies[callee.deff]
        if tgt is not None:
            if callee.trait in ("std::ops::Fn", "std::ops::FnMut", "std::ops::FnOnce"):
                return True
            return self.mutates(tgt, argindex + 1)
        if callee.indirect:
            return True
        return self.std_mutates(callee)

    def mutates(self, body, param):
        key = (body.id, param)
        if key in self._memo:
            return self._memo[key]
        self._memo[key] = False  # optimistic for recursion; fixed below by re-evaluation
        r = bool(self.mutation_sites(body, {param}))
        self._memo[key] = r
        if r:
            return True
        return r


# =====================================================================================================
# ATOMIC: validate-before-mutate
# =====================================================================================================
class Atomic:
    def __init__(self, prog, is_lookup, is_unchecked, key_arg=1):
        """is_lookup(callee) / is_unchecked(callee): predicates on resolved callees"""
        self.prog = prog
        self.is_lookup = is_lookup
        self.is_unchecked = is_unchecked
        self.rd = RefDeriv(prog)
        self.ms = MutSummary(prog, self.rd)
        self.key_arg = key_arg
        self._validator_memo = {}

    # ---- parameters of m that reach the key of an arena access, anywhere below m
    def keyed_params(self, m, max_depth=5):
        """returns (lookups, unchecked): lists of dict(param, top_pos, body, line, callee)"""
        pv = Prov(self.prog, mutflow=False)
        lookups, unchecked = [], []

        def walk(body, ctx, top_pos):
            for bi, t in body.calls():
                pos = (bi, len(body.blocks[bi].stmts))
                c = t.callee
                tp = top_pos if top_pos is not None else pos
                if self.is_lookup(c) or self.is_unchecked(c):
                    if len(t.args) > self.key_arg:
                        atoms = pv.of_operand_ctx(body, t.args[self.key_arg], ctx)
                        ps = {a[2] for a in atoms if a[0] == "param" and a[1] == m.id}
                        # ids read out of the receiver's own storage (`for ancestor in &term.all_parents`) are not caller-supplied ids
                        ps = {p_ for p_ in ps if not (p_ == 1 and m.arg_names.get(1) == "self")}
                        for p in ps:
                            rec = {"param": p, "top_pos": tp, "body": body, "line": t.line, "callee": c}
                            (lookups if self.is_lookup(c) else unchecked).append(rec)
                    continue
                tgt = None
                if c.res and c.res in self.prog.bodies:
                    tgt = self.prog.bodies[c.res]
                if tgt is not None and tgt.kind in ("Fn", "AssocFn") and len(ctx) < max_depth:
                    frame = ("call", body.id, bi)
                    if frame not in ctx and not any(f[1] == tgt.id for f in ctx) and tgt.id != body.id:
                        walk(tgt, ctx + (frame,), tp)

        walk(m, (), None)
        return lookups, unchecked

    # ---- validated(p) edges of a body
    def validated_edges(self, body, param, mutation_blocks, _stack=()):
        """CFG edges (b, t) of `body` that are the non-error out-edges of a SwitchInt whose discriminant depends on
        (a) the result of an arena lookup keyed by `param`, or (b) the result of a call of a crate function that
        validates the argument carrying `param` before it mutates and reports the failure.  The error edge is one
        from which no mutation site is reachable."""

        def src(c, b, t, resolve):
            if self.is_lookup(c) and len(t.args) > self.key_arg:
                atoms = resolve(t.args[self.key_arg])
                ps = frozenset(a[2] for a in atoms if a[0] == "param" and a[1] == body.id)
                return ("lookup", ps)
            return None

        pv = Prov(self.prog, sources=src, mutflow=False)
        pv_plain = Prov(self.prog, inline=False, mutflow=False)
        edges = []
        for bi in sorted(body.reach):
            t = body.blocks[bi].term
            if t.k != "switch":
                continue
            atoms = pv.of_operand(body, t.discr)
            hit = any(a[0] == "source" and a[1][0] == "lookup" and param in a[1][1] for a in atoms)
            if not hit:
                # (b) result of a validating crate function
                for a in pv_plain.of_operand(body, t.discr):
                    if a[0] != "call" or a[3] != body.id:
                        continue
                    ct = body.blocks[a[4]].term
                    c = ct.callee
                    g = self.prog.bodies.get(c.res) if c.res else None
                    if g is None or g.kind not in ("Fn", "AssocFn") or g.id in _stack:
                        continue
                    for ai, arg in enumerate(ct.args):
                        aat = pv_plain.of_operand(body, arg)
                        if any(x[0] == "param" and x[1] == body.id and x[2] == param for x in aat):
                            if self.validator(g, ai + 1, _stack + (body.id,)):
                                hit = True
                if not hit:
                    continue
            succs = t.successors()
            live = [s for s in succs if body.blocks[s].term.k != "unreachable" or body.blocks[s].stmts]
            if not mutation_blocks:
                # pure function: the validation is visible in what is returned (an error value on one side only)
                errs = [s for s in live if self._region_reports_error(body, (bi, s))]
                okk = [s for s in live if s not in errs]
                if errs and okk:
                    for s in okk:
                        edges.append((bi, s))
                continue
            err = [s for s in live if not (body.reachable_from(s) & mutation_blocks)]
            okk = [s for s in live if s not in err]
            if not err:
                continue  # no mutation-free exit: not a validation
            for s in okk:
                edges.append((bi, s))
        return edges

    @staticmethod
    def _region_reports_error(body, edge):
        for bi in body.region(edge):
            blk = body.blocks[bi]
            for st in blk.stmts:
                if st.k == "assign" and st.rv["k"] == "agg" and st.rv.get("agg") == "adt" and st.rv.get("variant") in ("Err", "None", "Break"):
                    return True
            if blk.term.k == "call" and blk.term.callee.method == "from_residual":
                return True
        return False

    def validator(self, g, k, _stack=()):
        """crate function g validates its parameter k: it has a validation edge for k and every mutation site in
        it is preceded by one (or is itself a validating call)"""
        key = (g.id, k)
        if key in self._validator_memo:
            return self._validator_memo[key]
        if g.id in _stack:
            return False
        self._validator_memo[key] = False
        if self._combinator_validator(g, k):
            self._validator_memo[key] = True
            return True
        P, sites, results = self.check_method(g, param_filter={k}, _stack=_stack)
        r = False
        if k in P:
            mblocks = {s["pos"][0] for s in sites}
            if self.validated_edges(g, k, mblocks, _stack + (g.id,)) and all(x["ok"] for x in results):
                r = True
        self._validator_memo[key] = r
        return r

    PRESERVING = {"map", "as_ref", "as_mut", "as_deref", "copied", "cloned", "and_then", "filter", "map_err", "ok_or", "ok_or_else", "inspect"}

    def _combinator_validator(self, g, k):
        """a pure, branch-free function whose VALUE is  lookup(param k) [.map(..)]* .ok_or(err) : it is Err exactly when the lookup found
        nothing (no combinator on the way can turn None into Some)"""
        if g.natural_loops() or self.ms.mutation_sites(g) or any(g.blocks[bi].term.k == "switch" for bi in g.reach):
            return False
        pvp = Prov(self.prog, inline=False, mutflow=False)

        class _O:
            pass
        o = _O()
        o.place = facts.Place({"l": 0, "p": []})
        o.kind = "copy"
        chain = receiver_calls(g, pvp, o)
        if not chain or not any(c.callee.method in ("ok_or", "ok_or_else") for c in chain):
            return False
        root = chain[-1]
        if not (self.is_lookup(root.callee) and len(root.args) > self.key_arg):
            return False
        if any(c.callee.method not in self.PRESERVING for c in chain[:-1]):
            return False
        return k in {a[2] for a in pvp.of_operand(g, root.args[self.key_arg]) if a[0] == "param" and a[1] == g.id}

    def check_method(self, m, param_filter=None, _stack=()):
        """B1 for body m.  returns (P, sites, results) with results = list of dict(site, param, ok, reason)"""
        lookups, unchecked = self.keyed_params(m)
        P = sorted({r["param"] for r in lookups} | {r["param"] for r in unchecked})
        if param_filter is not None:
            P = [p for p in P if p in param_filter]
        sites = self.ms.mutation_sites(m)
        mblocks = {s["pos"][0] for s in sites}
        results = []
        vedges = {p: self.validated_edges(m, p, mblocks, _stack) for p in P}
        pv = Prov(self.prog, inline=False, mutflow=False)
        for s in sites:
            for p in P:
                ok = any(m.edge_dominates(e, s["pos"][0]) for e in vedges[p])
                reason = "dominated by a validation edge" if ok else None
                if not ok and s["kind"] == "call" and s.get("callee") is not None:
                    # a crate-local callee that itself validates the corresponding parameter before mutating
                    c = s["callee"]
                    tgt = self.prog.bodies.get(c.res) if c.res else None
                    if tgt is not None and tgt.kind in ("Fn", "AssocFn") and tgt.id not in _stack:
                        t = s["term"]
                        cps = set()
                        for ai, a in enumerate(t.args):
                            atoms = pv.of_operand(m, a)
                            if any(x[0] == "param" and x[1] == m.id and x[2] == p for x in atoms):
                                cps.add(ai + 1)
                        if cps and all(self.validator(tgt, cp, _stack + (m.id,)) for cp in cps):
                            ok = True
                            reason = "callee %s validates before it mutates" % tgt.short
                results.append({"site": s, "param": p, "ok": ok, "reason": reason})
        return P, sites, results

    def check_unchecked(self, m):
        """B2: an unchecked arena access keyed by parameter p is preceded in m by a validated(p) edge"""
        lookups, unchecked = self.keyed_params(m)
        sites = self.ms.mutation_sites(m)
        mblocks = {s["pos"][0] for s in sites}
        res = []
        for u in unchecked:
            ve = self.validated_edges(m, u["param"], mblocks)
            ok = any(m.edge_dominates(e, u["top_pos"][0]) for e in ve)
            res.append({"acc": u, "ok": ok})
        return res


# =====================================================================================================
# KIND labels
# =====================================================================================================
KINDS = ("Gene", "Omim", "Orpha")

KIND_TYPE_RX = {
    "Gene": re.compile(r"\b(GeneId|Gene|Genes|GeneIterator)\b"),
    "Omim": re.compile(r"\b(OmimDiseaseId|OmimDisease|OmimDiseases|OmimDiseaseIterator|OmimDiseaseFilter)\b"),
    "Orpha": re.compile(r"\b(OrphaDiseaseId|OrphaDisease|OrphaDiseases|OrphaDiseaseIterator)\b"),
}
KIND_FIELDS = {
    "genes": "Gene", "omim_diseases": "Omim", "orpha_diseases": "Orpha",
    "gene": "Gene", "omim": "Omim", "orpha": "Orpha",
}
KIND_FIELD_OWNERS = re.compile(r"(Builder|Ontology|HpoTermInternal|HpoTerm|InformationContent)$")
KIND_VARIANTS = {"Gene": "Gene", "Omim": "Omim", "Orpha": "Orpha"}
KIND_ENUMS = re.compile(r"(InformationContentKind|DiseaseKind)$")


def kind_of_segment(seg):
    """kind named by one path segment / identifier (snake or camel), or None / 'multi'"""
    s = seg.lower()
    ks = set()
    if re.search(r"(^|_)genes?(_|$)", s) or re.search(r"gene(id|s|iterator)?$", s) and "gene" in s:
        ks.add("Gene")
    if "omim" in s:
        ks.add("Omim")
    if "orpha" in s:
        ks.add("Orpha")
    if len(ks) == 1:
        return ks.pop()
    return None


def kinds_in_type(tystr):
    ks = set()
    for k, rx in KIND_TYPE_RX.items():
        if rx.search(tystr):
            ks.add(k)
    return ks


def kind_of_callee(c):
    """kind carried by a resolved callee: by its own last path segment, or by its self type / generic args"""
    ks = set()
    m = c.method
    k = kind_of_segment(m)
    if k:
        ks.add(k)
    for src in (c.impl_self or "", (c.self_ty or {}).get("s", "") if c.self_ty else ""):
        ks |= kinds_in_type(src)
    return ks


def kind_of_body_name(b):
    """kinds named by the body's own path (last segment and self type)"""
    ks = set()
    base = b.root if b.kind == "Closure" and b.root else b.id
    last = provmod.strip_generics(base).rsplit("::", 1)[-1]
    k = kind_of_segment(last)
    if k:
        ks.add(k)
    return ks


def kind_elements(body):
    """all kind-labelled program elements used in a body: list of (kind, what, line)"""
    out = []
    for pos, x in body.positions():
        line = getattr(x, "line", None)
        if hasattr(x, "k") and getattr(x, "k") == "call" and x.callee is not None:
            c = x.callee
            if is_tracing(x.exp):
                continue
            for k in kind_of_callee(c):
                out.append((k, "call " + (c.def_args or c.name), line))
            # string patterns compared
            if c.method in ("starts_with", "eq", "ne", "strip_prefix") and len(x.args) > 1:
                for a in x.args[1:]:
                    if a.kind == "const" and a.const["ty"] in ("&str", "&'static str"):
                        v = a.const["val"].strip('"')
                        if v.startswith("OMIM"):
                            out.append(("Omim", "pattern " + a.const["val"], line))
                        if v.startswith("ORPHA"):
                            out.append(("Orpha", "pattern " + a.const["val"], line))
        places = []
        if hasattr(x, "rv") and x.rv is not None:
            places.append(x.place)
            rv = x.rv
            if rv["k"] in ("ref", "discr", "rawptr"):
                places.append(rv["place"])
            for o in x.ops:
                if o.place is not None:
                    places.append(o.place)
            if rv["k"] == "agg" and rv.get("agg") == "adt":
                if KIND_ENUMS.search(rv["adt"]) and rv["variant"] in KIND_VARIANTS:
                    out.append((KIND_VARIANTS[rv["variant"]], "variant %s::%s" % (rv["adt"], rv["variant"]), line))
                for k in kinds_in_type(rv["adt"].rsplit("::", 1)[-1]):
                    out.append((k, "construct " + rv["adt"], line))
        elif hasattr(x, "args"):
            for o in x.args:
                if o.place is not None:
                    places.append(o.place)
            if x.k == "switch" and x.discr.place is not None:
                places.append(x.discr.place)
        for pl in places:
            for e in pl.fields():
                if e != "*" and e[0] == "f":
                    if e[1] in KIND_FIELDS and KIND_FIELD_OWNERS.search(e[2]):
                        out.append((KIND_FIELDS[e[1]], "field %s.%s" % (e[2], e[1]), line))
                elif e != "*" and e[0] == "dc":
                    if e[1] in KIND_VARIANTS:
                        # downcast to a kind-enum variant
                        lt = body.locals[pl.local]["s"]
                        if KIND_ENUMS.search(lt.split("<")[0].replace("&", "").strip()) or "Kind" in lt:
                            out.append((KIND_VARIANTS[e[1]], "variant arm %s" % e[1], line))
    return out


# =====================================================================================================
# constants helpers
# =====================================================================================================
def parse_bytestr(val):
    """decode rustc's display of a byte-string constant  b"..."  into bytes (None if not one)"""
    m = re.match(r'^&?b"(.*)"$', val, re.S)
    if not m:
        return None
    s = m.group(1)
    out = bytearray()
    i = 0
    while i < len(s):
        ch = s[i]
        if ch == "\\":
            n = s[i + 1]
            if n == "x":
                out.append(int(s[i + 2:i + 4], 16))
                i += 4
                continue
            mp = {"n": 10, "r": 13, "t": 9, "\\": 92, "0": 0, '"': 34, "'": 39}
            if n in mp:
                out.append(mp[n])
                i += 2
                continue
            return None
        out.extend(ch.encode("utf-8"))
        i += 1
    return bytes(out)


def decode_format_template(b):
    """decode rustc's compact format_args template (1.9x): returns list of ('lit', bytes) | ('arg', dict)
    or None when the shape is not recognised (soft idiom)"""
    out = []
    i = 0
    try:
        while i < len(b):
            x = b[i]
            if x == 0:
                break
            if x < 0x80:
                out.append(("lit", b[i + 1:i + 1 + x]))
                i += 1 + x
            elif x == 0x80:
                ln = b[i + 1] | (b[i + 2] << 8)
                out.append(("lit", b[i + 3:i + 3 + ln]))
                i += 3 + ln
            elif x & 0xC0 == 0xC0:
                i += 1
                d = {}
                if x & 1:
                    d["flags"] = int.from_bytes(b[i:i + 4], "little")
                    i += 4
                if x & 2:
                    d["width"] = int.from_bytes(b[i:i + 2], "little")
                    i += 2
                    if x & 0x10:
                        d["width_arg"] = True  # `{:0w$}`: the number is the index of the argument that holds the width
                if x & 4:
                    d["precision"] = int.from_bytes(b[i:i + 2], "little")
                    i += 2
                if x & 8:
                    d["index"] = int.from_bytes(b[i:i + 2], "little")
                    i += 2
                out.append(("arg", d))
            else:
                return None
    except IndexError:
        return None
    return out


def str_const(op):
    """the string denoted by a &str constant operand (None otherwise)"""
    if op.kind == "const" and op.const["ty"].replace("'static ", "") == "&str":
        v = op.const["val"]
        if v.startswith('"') and v.endswith('"'):
            try:
                return bytes(v[1:-1], "utf-8").decode("unicode_escape").encode("latin-1").decode("utf-8")
            except Exception:
                return v[1:-1]
    return None


ENDIAN_RX = re.compile(r"::(to|from)_(be|le|ne)_bytes$|::swap_bytes$|::to_(be|le)$|::from_(be|le)$")


def endian_sites(prog, bodies=None):
    """all int<->bytes conversion call sites: list of (body, term, family)"""
    out = []
    for b in (bodies if bodies is not None else prog.production()):
        for bi, t in b.calls():
            n = provmod.strip_generics(t.callee.deff or "")
            m = ENDIAN_RX.search(n)
            if m:
                fam = "be" if "_be" in m.group(0) else ("le" if "_le" in m.group(0) else "other")
                out.append((b, t, fam))
    return out


# =====================================================================================================
# zero tests:  `match x { 0 => .., n => .. }`  /  `if x == 0`  on a value with a given provenance
# =====================================================================================================
def zero_test_edges(body, pv, is_subject):
    """switches that test a subject value against the constant 0.
    returns list of dict(switch_bb, zero_edges=[(b,t)], nonzero_edges=[(b,t)], line)
    is_subject(atoms) decides whether the tested value is the one the rule is about."""
    out = []
    defs = pv.defs(body)
    for bi in sorted(body.reach):
        t = body.blocks[bi].term
        if t.k != "switch" or t.discr.place is None:
            continue
        dl = t.discr.place.local
        # form 1: switchInt(value) with an arm for 0
        if "int" in (body.locals[dl]["k"],) or body.locals[dl]["k"] in ("uint", "int", "ref", "refmut"):
            vals = [v for v, _ in t.targets]
            if 0 in vals and body.locals[dl]["s"].replace("&", "").strip() not in ("bool",) and t.discr_ty not in ("bool", "isize"):
                atoms = pv.of_operand(body, t.discr)
                if is_subject(atoms):
                    z = [(bi, tg) for v, tg in t.targets if v == 0]
                    nz = [(bi, tg) for v, tg in t.targets if v != 0] + [(bi, t.otherwise)]
                    out.append({"switch_bb": bi, "zero_edges": z, "nonzero_edges": nz, "line": t.line})
                    continue
        # form 2: bool discriminant defined by Eq/Ne(x, const 0)
        if t.discr_ty == "bool":
            for kind, pos, d in defs.get(dl, []):
                if kind != "assign" or d.rv["k"] != "bin" or d.rv["op"] not in ("Eq", "Ne"):
                    continue
                l, r = d.rv["l"], d.rv["r"]
                x = None
                if r.kind == "const" and r.int_value() == 0:
                    x = l
                elif l.kind == "const" and l.int_value() == 0:
                    x = r
                if x is None:
                    continue
                atoms = pv.of_operand(body, x)
                if not is_subject(atoms):
                    continue
                true_edges = [(bi, t.otherwise)] if [v for v, _ in t.targets] == [0] else [(bi, tg) for v, tg in t.targets if v == 1]
                false_edges = [(bi, tg) for v, tg in t.targets if v == 0]
                if d.rv["op"] == "Eq":
                    out.append({"switch_bb": bi, "zero_edges": true_edges, "nonzero_edges": false_edges, "line": t.line})
                else:
                    out.append({"switch_bb": bi, "zero_edges": false_edges, "nonzero_edges": true_edges, "line": t.line})
    return out


# =====================================================================================================
# GUARD sites, SELECT, DISPATCH helpers
# =====================================================================================================
def float_div_sites(body):
    """float divisions and ln calls of a body: dict(kind 'div'|'ln', pos, num, den|arg, line)"""
    out = []
    for pos, s in body.stmts():
        if s.k == "assign" and s.rv["k"] == "bin" and s.rv["op"] == "Div" and s.rv.get("lty") in ("f32", "f64"):
            out.append({"kind": "div", "pos": pos, "num": s.rv["l"], "den": s.rv["r"], "line": s.line, "form": "binop"})
    for bi, t in body.calls():
        pos = (bi, len(body.blocks[bi].stmts))
        c = t.callee
        if c.trait == "std::ops::Div" and c.method == "div" and len(t.args) == 2:
            st = (c.self_ty or {}).get("s", "")
            if "f32" in st or "f64" in st:
                out.append({"kind": "div", "pos": pos, "num": t.args[0], "den": t.args[1], "line": t.line, "form": "trait"})
        elif c.method == "ln" and re.search(r"^std::f(32|64)::<impl f(32|64)>::ln$", c.deff or "") and t.args:
            out.append({"kind": "ln", "pos": pos, "arg": t.args[0], "line": t.line, "form": "call"})
    return out


CMP_OPS = {"Gt": ">", "Lt": "<", "Ge": ">=", "Le": "<="}


def comparisons(body, pv):
    """bool locals defined by an ordering comparison: local -> (op, L operand, R operand, pos)"""
    out = {}
    for pos, s in body.stmts():
        if s.k == "assign" and s.rv["k"] == "bin" and s.rv["op"] in CMP_OPS and s.place.is_local():
            out[s.place.local] = (s.rv["op"], s.rv["l"], s.rv["r"], pos)
    for bi, t in body.calls():
        c = t.callee
        if c.trait == "std::cmp::PartialOrd" and c.method in ("gt", "lt", "ge", "le") and len(t.args) == 2 and t.dest.is_local():
            out[t.dest.local] = (c.method.capitalize(), t.args[0], t.args[1], (bi, len(body.blocks[bi].stmts)))
    return out


def classify_selection(body, pv, key_atoms=None):
    """For a body that returns one of two values under an ordering comparison of (projections of) them:
    returns list of dict(kind 'min'|'max'|None, detail).  `same value` is decided by provenance.
    key_atoms(atoms) -> frozenset of hashable identities used to compare 'the same operand' (default: params)."""
    if key_atoms is None:
        def key_atoms(atoms):
            return frozenset((a[2]) for a in atoms if a[0] == "param" and a[1] == body.id)
    cmps = comparisons(body, pv)
    res = []
    for bi in sorted(body.reach):
        t = body.blocks[bi].term
        if t.k != "switch" or t.discr.place is None:
            continue
        dl = t.discr.place.local
        # follow single copies
        root = dl
        info = cmps.get(root)
        if info is None:
            for kind, pos, d in pv.defs(body).get(dl, []):
                if kind == "assign" and d.rv["k"] == "use" and d.rv["op"].place is not None:
                    info = cmps.get(d.rv["op"].place.local)
        if info is None:
            continue
        op, lo, ro, cpos = info
        la = key_atoms(pv.of_operand(body, lo))
        ra = key_atoms(pv.of_operand(body, ro))
        if not la or not ra or la == ra:
            res.append({"kind": None, "detail": "compared operands are not two distinct inputs", "bb": bi, "line": t.line})
            continue
        vals = [v for v, _ in t.targets]
        true_tgts = [tg for v, tg in t.targets if v == 1] or ([t.otherwise] if vals == [0] else [])
        false_tgts = [tg for v, tg in t.targets if v == 0]
        if not true_tgts or not false_tgts:
            continue

        def returned(tg):
            region = body.region((bi, tg))
            atoms = pv.of_local(body, 0, def_filter=lambda b, pos: (b.id != body.id) or (pos[0] in region))
            return key_atoms(atoms)

        rt = returned(true_tgts[0])
        rf = returned(false_tgts[0])
        # which operand is returned on the true edge?
        def side(r):
            if r and r <= la and not (r & ra):
                return "L"
            if r and r <= ra and not (r & la):
                return "R"
            return None
        st, sf = side(rt), side(rf)
        if st is None or sf is None or st == sf:
            res.append({"kind": None, "detail": "branches do not return the two compared values (true:%s false:%s)" % (sorted(rt), sorted(rf)), "bb": bi, "line": t.line})
            continue
        greater_on_true = op in ("Gt", "Ge")  # L op R true => L is the greater one
        if greater_on_true:
            kind = "max" if st == "L" else "min"
        else:
            kind = "min" if st == "L" else "max"
        res.append({"kind": kind, "detail": "returns the %s operand when L %s R" % ("left" if st == "L" else "right", CMP_OPS[op]), "bb": bi, "line": t.line})
    return res


def enum_arms(prog, body, enum_path):
    """switches of `body` on the discriminant of a value of enum `enum_path`:
    returns list of dict(bb, arms={variant_name: edge})"""
    adt = prog.adts.get(enum_path)
    if adt is None:
        return []
    names = [v["name"] for v in adt["variants"]]
    out = []
    defs = {}
    for pos, s in body.stmts():
        if s.k == "assign" and s.rv["k"] == "discr" and s.place.is_local():
            defs[s.place.local] = s.rv["place"]
    for bi in sorted(body.reach):
        t = body.blocks[bi].term
        if t.k != "switch" or t.discr.place is None:
            continue
        pl = defs.get(t.discr.place.local)
        if pl is None:
            continue
        # type of the matched place
        pt = place_type_str(prog, body, pl)
        if pt is None or not re.match(r"^(&(mut )?)*" + re.escape(enum_path) + r"(<|$)", pt.strip()):
            continue
        arms = {}
        for v, tg in t.targets:
            if v < len(names):
                arms[names[v]] = (bi, tg)
        listed = {v for v, _ in t.targets}
        rest = [n for i, n in enumerate(names) if i not in listed]
        if len(rest) == 1 and body.blocks[t.otherwise].term.k != "unreachable":
            arms[rest[0]] = (bi, t.otherwise)
        out.append({"bb": bi, "arms": arms, "line": t.line})
    return out


def norm_name(s):
    return re.sub(r"[^a-z0-9]", "", s.lower())


def place_type_str(prog, body, place):
    """type (as a string) of a place, resolved through the crate's ADT table; None if unknown"""
    cur = body.locals[place.local]["s"]
    prev_dc = None
    for e in place.fields():
        if e == "*":
            continue
        if e[0] == "f":
            adt = prog.adts.get(e[2])
            if adt is None:
                # payload of std Option / Result
                base = re.sub(r"^(&(mut )?)*", "", cur.strip())
                m = re.match(r"^std::option::Option<(.*)>$", base)
                if m and prev_dc == "Some" and e[1] == "0":
                    cur = m.group(1)
                    prev_dc = None
                    continue
                return None
            ft = None
            for v in adt["variants"]:
                for f in v["fields"]:
                    if f["name"] == e[1]:
                        ft = f["ty"]
            if ft is None:
                return None
            cur = ft
            prev_dc = None
        elif e[0] == "dc":
            prev_dc = e[1]
            continue
        else:
            return None
    return cur


# =====================================================================================================
# polarity of a boolean function built from one predicate call
# =====================================================================================================
def bool_const_cmp(rv):
    """`x == false` / `x != true` (sign -1) and `x == true` / `x != false` (sign +1) as (operand x, sign); None for anything else"""
    if rv.get("k") != "bin" or rv.get("op") not in ("Eq", "Ne"):
        return None
    for a, b in ((rv["l"], rv["r"]), (rv["r"], rv["l"])):
        if b.kind == "const" and (b.const or {}).get("ty") == "bool" and a.place is not None and a.place.is_local():
            is_true = (b.const.get("val") == "true")
            return a, (1 if (rv["op"] == "Eq") == is_true else -1)
    return None



def bool_polarity(body, pv, pred):
    """body returns a bool computed from the result p of a call for which pred(callee) holds.
    Returns (+1 | -1 | None, callee term | None):  +1: returns p,  -1: returns !p."""
    # find predicate calls in the body
    pcalls = [(bi, t) for bi, t in body.calls() if pred(t.callee)]
    if not pcalls:
        return None, None
    pl = {t.dest.local: (bi, t) for bi, t in pcalls if t.dest.is_local()}
    defs = pv.defs(body)

    def val(local, depth=0):
        """symbolic value of a bool local: ('p', sign, call) or None"""
        if depth > 8:
            return None
        if local in pl:
            return (1, pl[local][1])
        ds = defs.get(local, [])
        res = None
        for kind, pos, d in ds:
            if kind != "assign":
                return None
            rv = d.rv
            if rv["k"] == "use" and rv["op"].place is not None and rv["op"].place.is_local():
                r = val(rv["op"].place.local, depth + 1)
            elif rv["k"] == "un" and rv["op"] == "Not" and rv["o"].place is not None:
                r = val(rv["o"].place.local, depth + 1)
                if r is not None:
                    r = (-r[0], r[1])
            elif bool_const_cmp(rv) is not None:
                o_, sg_ = bool_const_cmp(rv)
                r = val(o_.place.local, depth + 1)
                if r is not None:
                    r = (sg_ * r[0], r[1])
            else:
                return None
            if r is None:
                return None
            if res is not None and res[0] != r[0]:
                return None
            res = r
        return res

    direct = val(0)
    if direct is not None:
        return direct
    # switch form: if p { const } else { const }
    for bi in sorted(body.reach):
        t = body.blocks[bi].term
        if t.k != "switch" or t.discr.place is None:
            continue
        r = val(t.discr.place.local)
        if r is None:
            continue
        vals = [v for v, _ in t.targets]
        true_t = [tg for v, tg in t.targets if v == 1] or ([t.otherwise] if vals == [0] else [])
        false_t = [tg for v, tg in t.targets if v == 0]
        if not true_t or not false_t:
            continue

        def const_in(tg):
            region = body.region((bi, tg))
            out = set()
            for pos, s in body.stmts():
                if pos[0] in region and s.k == "assign" and s.place.local == 0 and s.place.is_local() and s.rv["k"] == "use" and s.rv["op"].kind == "const":
                    out.add(s.rv["op"].const["val"])
            return out
        ct, cf = const_in(true_t[0]), const_in(false_t[0])
        if ct == {"true"} and cf == {"false"}:
            return (r[0], r[1])
        if ct == {"false"} and cf == {"true"}:
            return (-r[0], r[1])
    return None, pcalls[0][1]


def kernel(prog, body, ignore_callees=()):
    """SIBLING kernel: resolved crate callees, semantic std adaptors, Not-parity, and constants of a body with its closures"""
    callees = set()
    adaptors = []
    nots = 0
    consts = set()
    for fb in prog.family(body):
        for bi, t in fb.calls():
            c = t.callee
            if is_tracing(t.exp):
                continue
            if c.res and c.res in prog.bodies:
                if c.res not in ignore_callees:
                    callees.add(c.res)
            elif c.method in ("filter", "map", "filter_map", "any", "all", "unwrap_or", "unwrap_or_else", "fold", "find", "collect", "chain", "rev", "skip", "take", "is_none", "is_some"):
                adaptors.append(c.method)
        for pos, s in fb.stmts():
            if s.k == "assign" and s.rv["k"] == "un" and s.rv["op"] == "Not":
                nots += 1
            if s.k == "assign":
                for o in s.ops:
                    if o.kind == "const" and o.const["ty"] in ("bool", "u32", "usize", "f32"):
                        consts.add(o.const["val"])
    return {"callees": frozenset(callees), "adaptors": tuple(sorted(adaptors)), "not_parity": nots % 2, "consts": frozenset(consts)}


def column_taker(prog, g):
    """index (1-based) of the parameter of the loop-free crate function `g` that is an iterator from which `g` takes exactly ONE item on every
    path (`fn next_column(cols: &mut impl Iterator<Item = &str>, ..) -> Result<&str, _> { cols.next().ok_or_else(..) }`), else None"""
    if g is None or g.kind not in ("Fn", "AssocFn") or g.natural_loops():
        return None
    nx = [(bi, t) for bi, t in g.calls() if t.callee.method == "next" and t.callee.trait == "std::iter::Iterator" and t.args and t.args[0].place is not None]
    if len(nx) != 1 or any(t.callee.method in ("nth", "skip", "take", "last", "count") for _, t in g.calls()):
        return None
    bi, t = nx[0]
    if not all(g.dominates(bi, e) for e in g.exits):
        return None
    l, seen = t.args[0].place.local, set()
    while l not in seen:
        seen.add(l)
        if 1 <= l <= g.nargs:
            return l
        ds = [st for _, st in g.stmts() if st.k == "assign" and st.place.is_local() and st.place.local == l]
        if len(ds) != 1 or ds[0].rv["k"] not in ("ref", "use"):
            return None
        pl = ds[0].rv["place"] if ds[0].rv["k"] == "ref" else ds[0].rv["op"].place
        if pl is None:
            return None
        l = pl.local
    return None


def split_columns(body, pv, prog=None):
    """`next()` / `nth(k)` calls on a str split iterator, numbered by dominance: {bb: column index}.  With `prog`, a call of a crate helper that
    takes exactly one item from the iterator it is handed (`column_taker`) counts as a `next()`."""
    nexts = []
    for bi, t in body.calls():
        c = t.callee
        taker = column_taker(prog, prog.bodies.get(c.res)) if prog is not None and c.res and c.res in prog.bodies else None
        if taker is not None and taker - 1 < len(t.args) and t.args[taker - 1].place is not None:
            l = t.args[taker - 1].place.local
            seen = set()
            while l not in seen:
                seen.add(l)
                ds = pv.defs(body).get(l, [])
                if len(ds) == 1 and ds[0][0] == "assign" and ds[0][2].rv["k"] in ("ref", "use"):
                    rv = ds[0][2].rv
                    pl = rv["place"] if rv["k"] == "ref" else rv["op"].place
                    if pl is None:
                        break
                    l = pl.local
                else:
                    break
            # only iterators that are a str split (the root local's type says so)
            if re.search(r"str::(Split|SplitN|SplitWhitespace|RSplit)", body.locals[l]["s"] if l < len(body.locals) else ""):
                nexts.append((bi, l, 0))
            continue
        if c.method in ("next", "nth") and c.trait == "std::iter::Iterator" and re.search(r"std::str::(Split|SplitN|SplitWhitespace|RSplit)", c.def_args or ""):
            root = None
            if t.args and t.args[0].place is not None:
                # root local of the iterator
                l = t.args[0].place.local
                seen = set()
                while l not in seen:
                    seen.add(l)
                    ds = pv.defs(body).get(l, [])
                    if len(ds) == 1 and ds[0][0] == "assign" and ds[0][2].rv["k"] in ("ref", "use"):
                        rv = ds[0][2].rv
                        pl = rv["place"] if rv["k"] == "ref" else rv["op"].place
                        if pl is None:
                            break
                        l = pl.local
                    else:
                        break
                root = l
            # columns skipped before the one returned: nth(k) skips k
            skip = 0
            if c.method == "nth":
                skip = t.args[1].int_value() if len(t.args) > 1 and t.args[1].kind == "const" else None
            nexts.append((bi, root, skip))
    cols = {}
    for bi, root, skip in nexts:
        before = [s2 for bj, r2, s2 in nexts if r2 == root and bj != bi and body.dominates(bj, bi)]
        if skip is None or any(s2 is None for s2 in before):
            cols["incomplete"] = True  # a computed skip: the column number is not a constant
            continue
        cols[bi] = sum(s2 + 1 for s2 in before) + skip
    return cols


def columns_of(body, atoms, cols):
    """column indices a value was read from (call atoms of numbered next() / nth() calls in `body`)"""
    return {cols[a[4]] for a in atoms if a[0] == "call" and a[3] == body.id and a[4] in cols and (a[1].endswith("::next") or a[1].endswith("::nth") or body.blocks[a[4]].term.callee.method not in ("next", "nth"))}


def user_root_locals(body, pv, op, stop=None):
    """variables (by MIR local) an operand is a copy / projection of, following copies, borrows, tuple fields and
    Some-payloads.  With `stop` (a set of locals) the walk ends at those; otherwise at the first user-named local."""
    out = set()
    if op.place is None:
        return out
    work = [(op.place.local, tuple(e for e in op.place.fields() if e != "*"))]
    seen = set()
    defs = pv.defs(body)
    while work:
        l, path = work.pop()
        if (l, path) in seen:
            continue
        seen.add((l, path))
        if stop is not None:
            if l in stop:
                out.add(l)
                continue
        elif l in body.debug and not path:
            out.add(l)
            continue
        for kind, pos, d in defs.get(l, []):
            if kind != "assign":
                continue
            rv = d.rv
            if rv["k"] == "use" and rv["op"].place is not None:
                work.append((rv["op"].place.local, tuple(e for e in rv["op"].place.fields() if e != "*") + path))
            elif rv["k"] == "ref":
                work.append((rv["place"].local, tuple(e for e in rv["place"].fields() if e != "*") + path))
            elif rv["k"] == "agg" and rv["agg"] == "tuple" and path and path[0][0] == "f" and path[0][1].isdigit():
                i = int(path[0][1])
                o = rv["ops"][i] if i < len(rv["ops"]) else None
                if o is not None and o.place is not None:
                    work.append((o.place.local, tuple(e for e in o.place.fields() if e != "*") + path[1:]))
            elif rv["k"] == "agg" and rv["agg"] == "adt" and rv.get("variant") == "Some" and len(path) >= 2 and path[0] == ("dc", "Some"):
                o = rv["ops"][0]
                if o.place is not None:
                    work.append((o.place.local, tuple(e for e in o.place.fields() if e != "*") + path[2:]))
        for kind, pos, d in defs.get(l, []):
            if kind == "call" and d.callee.method in ("unwrap", "expect", "clone", "copied", "cloned", "deref", "as_ref", "unwrap_or_default") and d.args and d.args[0].place is not None:
                a = d.args[0].place
                extra = (("dc", "Some"), ("f", "0", "opt")) if d.callee.method in ("unwrap", "expect") else ()
                work.append((a.local, tuple(e for e in a.fields() if e != "*") + extra + path))
    return out


def string_key_arms(body, pv=None):
    """`match key { "lit" => ... }` / `if key == "lit"`: returns {literal: dict(edge, region, assigned locals, line)} for
    equality tests of a str against a string constant"""
    if pv is None:
        pv = Prov(body.prog, inline=False)
    out = {}
    for bi, t in body.calls():
        c = t.callee
        if c.trait == "std::cmp::PartialEq" and c.method in ("eq", "ne") and len(t.args) == 2 and t.dest.is_local():
            lit = None
            for a in t.args:
                v = const_str_of(body, pv, a)
                if v is not None:
                    lit = v
            if lit is None:
                continue
            for (sbi, tg) in positive_edges(body, pv, bi):
                x = body.blocks[sbi].term
                if c.method == "ne":
                    others = [s for s in x.successors() if s != tg]
                    if not others:
                        continue
                    tg = others[0]
                region = body.region((sbi, tg))
                assigned = set()
                for pos, st in body.stmts():
                    if pos[0] in region and st.k == "assign" and st.place.is_local() and st.place.local in body.debug:
                        assigned.add(st.place.local)
                out[lit] = {"edge": (sbi, tg), "region": region, "assigned": assigned, "line": t.line, "call_bb": bi}
    return out


def positive_edges(body, pv, call_bb):
    """edges (switch_bb, target) on which the result of the call terminating block `call_bb` is positive
    (true / Some / Ok), following is_some/is_none/is_ok/is_err, `!`, copies and discriminant reads"""
    t0 = body.blocks[call_bb].term
    if not t0.dest.is_local():
        return []
    defs = pv.defs(body)
    out = []
    for sbi in sorted(body.reach):
        x = body.blocks[sbi].term
        if x.k != "switch" or x.discr.place is None:
            continue
        l = x.discr.place.local
        sign = 1
        via_discr = False
        ok = False
        seen = set()
        while l not in seen:
            seen.add(l)
            if l == t0.dest.local:
                ok = True
                break
            ds = defs.get(l, [])
            if len(ds) != 1:
                break
            kind, pos, d = ds[0]
            if kind == "assign":
                rv = d.rv
                if rv["k"] == "use" and rv["op"].place is not None and not [e for e in rv["op"].place.fields() if e != "*"]:
                    l = rv["op"].place.local
                elif rv["k"] == "ref" and not [e for e in rv["place"].fields() if e != "*"]:
                    l = rv["place"].local
                elif rv["k"] == "un" and rv["op"] == "Not" and rv["o"].place is not None:
                    sign = -sign
                    l = rv["o"].place.local
                elif bool_const_cmp(rv) is not None:
                    o_, sg_ = bool_const_cmp(rv)
                    sign = sign * sg_
                    l = o_.place.local
                elif rv["k"] == "discr" and not [e for e in rv["place"].fields() if e != "*"]:
                    via_discr = True
                    l = rv["place"].local
                else:
                    break
            else:
                m = d.callee.method
                if m in ("is_some", "is_ok") and d.args and d.args[0].place is not None:
                    l = d.args[0].place.local
                elif m in ("is_none", "is_err") and d.args and d.args[0].place is not None:
                    sign = -sign
                    l = d.args[0].place.local
                elif m in ("branch",) and d.args and d.args[0].place is not None:
                    l = d.args[0].place.local
                else:
                    break
        if not ok:
            continue
        vals = [v for v, _ in x.targets]
        if via_discr:
            # Option: None=0 Some=1 ; Result: Ok=0 Err=1 ; ControlFlow: Continue=0 Break=1
            ty = body.locals[t0.dest.local]["s"]
            pos_val = 1 if ty.startswith("std::option::Option") else 0
            pos_t = [tg for v, tg in x.targets if v == pos_val] or ([x.otherwise] if pos_val not in vals and len(vals) == 1 else [])
            neg_t = [tg for v, tg in x.targets if v != pos_val] or [x.otherwise]
        else:
            pos_t = [tg for v, tg in x.targets if v == 1] or ([x.otherwise] if vals == [0] else [])
            neg_t = [tg for v, tg in x.targets if v == 0] or ([x.otherwise] if vals == [1] else [])
        tg = pos_t if sign == 1 else neg_t
        if tg:
            out.append((sbi, tg[0]))
    return out


def const_str_of(body, pv, op):
    """the string constant an operand denotes (directly or through references / promoted constants), else None"""
    v = str_const(op)
    if v is not None:
        return v

    def named(defid):
        """value of a named `const X: &str = "..."` item"""
        cb = pv.prog.bodies.get(defid)
        if cb is None:
            return None
        for _, st in cb.stmts():
            if st.k == "assign" and st.place.is_local() and st.place.local == 0 and st.rv["k"] == "use":
                return str_const(st.rv["op"])
        return None
    if op.kind == "const" and op.const.get("def"):
        v = named(op.const["def"])
        if v is not None:
            return v
    atoms = pv.of_operand(body, op)
    cds = [a for a in atoms if a[0] == "constdef"]
    if len(cds) == 1 and not [a for a in atoms if a[0] in ("param", "call", "field", "upvar", "source") or (a[0] == "const" and not str(a[2]).endswith(cds[0][1].rsplit("::", 1)[-1]))]:
        v = named(cds[0][1])
        if v is not None:
            return v
    strs = [a for a in atoms if a[0] == "const" and a[1].replace("'static ", "") == "&str"]
    others = [a for a in atoms if a[0] in ("param", "call", "field", "upvar", "source")]
    if len(strs) == 1 and not others:
        v = strs[0][2]
        if v.startswith('"') and v.endswith('"'):
            return v[1:-1]
    return None


ORIGIN_TRANSPARENT = {"clone", "iter", "into_iter", "next", "copied", "cloned", "deref", "by_ref", "as_ref", "borrow", "to_owned", "unwrap", "expect"}


def origins(body, pv, op, depth=0):
    """shallow origin of a value: follows copies, borrows, projections and the std calls of ORIGIN_TRANSPARENT;
    stops at every other call.  returns a set of ('call', resolved name) | ('field', adt, name) | ('param', i) | ('const', v)"""
    out = set()
    if op.kind == "const":
        out.add(("const", op.const["val"]))
        return out
    if op.place is None:
        return out
    work = [op.place]
    seen = set()
    defs = pv.defs(body)
    while work:
        pl = work.pop()
        for e in pl.fields():
            if e != "*" and e[0] == "f" and not e[2].startswith("closure:") and e[2] not in ("tuple", "?"):
                out.add(("field", e[2], e[1]))
        l = pl.local
        if l in seen:
            continue
        seen.add(l)
        if 1 <= l <= body.nargs:
            out.add(("param", l))
        for kind, pos, d in defs.get(l, []):
            if kind == "assign":
                rv = d.rv
                if rv["k"] == "use" and rv["op"].place is not None:
                    work.append(rv["op"].place)
                elif rv["k"] == "use" and rv["op"].kind == "const":
                    out.add(("const", rv["op"].const["val"]))
                elif rv["k"] in ("ref", "rawptr"):
                    work.append(rv["place"])
                elif rv["k"] == "cast" and rv["op"].place is not None:
                    work.append(rv["op"].place)
                elif rv["k"] == "agg":
                    for o in rv["ops"]:
                        if o.place is not None:
                            work.append(o.place)
            else:
                t = d
                is_clone = (t.callee.trait == "std::clone::Clone" and t.callee.method == "clone") or (t.callee.trait in ("std::iter::Iterator", "std::iter::IntoIterator") and t.callee.method in ("next", "into_iter")) or (t.callee.method == "iter" and t.callee.res in body.prog.bodies and len(t.args) == 1)
                if (is_clone or (t.callee.method in ORIGIN_TRANSPARENT and not (t.callee.res and t.callee.res in body.prog.bodies))) and t.args and t.args[0].place is not None:
                    work.append(t.args[0].place)
                else:
                    out.add(("call", t.callee.res or t.callee.deff or "<indirect>"))
    return out


TRUNCATING_ADAPTORS = {"take_while", "skip_while", "filter", "take", "skip", "step_by", "filter_map", "find", "find_map", "map_while", "nth", "last", "peekable", "chunks", "windows"}


def adaptor_chain(body, pv, op):
    """names of the calls between an iterator operand and its source, walking receivers (args[0]) backwards through
    single-definition temporaries"""
    chain = []
    cur = op
    seen = set()
    defs = pv.defs(body)
    while cur is not None and cur.place is not None and cur.place.local not in seen:
        l = cur.place.local
        seen.add(l)
        nxt = None
        for kind, pos, d in defs.get(l, []):
            if kind == "call":
                chain.append(d.callee.method)
                nxt = d.args[0] if d.args else None
            elif d.rv["k"] == "use":
                nxt = d.rv["op"]
            elif d.rv["k"] == "ref":
                class _O:  # minimal operand wrapper around a place
                    pass
                o = _O()
                o.place = d.rv["place"]
                o.kind = "copy"
                nxt = o
        cur = nxt
    return chain



def fn_item_args(prog, target_pred):
    """calls that receive a crate function as a VALUE (`helper(.., InformationContent::set_gene)`): list of (body, bb, call, arg index, target id)"""
    out = []
    for b in prog.production():
        consts = {}
        for pos, st in b.stmts():
            if st.k == "assign" and st.place.is_local() and st.rv and st.rv["k"] == "use" and st.rv["op"].kind == "const":
                c = st.rv["op"].const
                v = c.get("fn") or c.get("res")
                if v:
                    consts[st.place.local] = v
        for bi, t in b.calls():
            for i, a in enumerate(t.args):
                v = None
                if a.kind == "const":
                    v = a.const.get("fn") or a.const.get("res")
                elif a.place is not None and a.place.is_local():
                    v = consts.get(a.place.local)
                if v and v in prog.bodies and target_pred(v):
                    out.append((b, bi, t, i, v))
    return out


FLOAT_CHANGE = {"clamp", "min", "max", "abs", "round", "floor", "ceil", "trunc", "sqrt", "cbrt", "powi", "powf", "ln", "log", "log2", "log10", "exp", "exp2", "recip", "signum", "mul_add", "fract",
                "copysign", "rem_euclid", "div_euclid", "to_degrees", "to_radians", "ln_1p", "exp_m1", "Add", "Sub", "Mul", "Div", "Rem", "Neg", "as",
                "AddWithOverflow", "SubWithOverflow", "MulWithOverflow", "unwrap_or", "unwrap_or_default", "unwrap_or_else", "map", "map_or", "sum", "product", "fold"}


def steps_after_call(body, pv, pred, max_depth=12, start=0):
    """what happens to the result of the call satisfying `pred` before it becomes the function's value: list of step names (methods /
    operators) met on the def chain from `_0` back to that call; None when the call does not reach `_0` at all.  Constants assigned to `_0`
    on other paths are not steps."""
    defs = pv.defs(body)
    found = [False]
    steps = []

    def walk(local, depth, trail):
        if depth > max_depth:
            return
        for kind, pos, d in defs.get(local, []):
            if kind == "call":
                if pred(d):
                    found[0] = True
                    steps.extend(trail)
                    continue
                if d.callee.method in ("branch", "from_residual", "from", "into"):
                    nt = trail
                else:
                    nt = trail + [d.callee.method or "call"]
                for a in d.args:
                    if a.place is not None:
                        walk(a.place.local, depth + 1, nt)
            else:
                rv = d.rv
                if rv["k"] in ("use", "cast") and rv["op"].place is not None:
                    walk(rv["op"].place.local, depth + 1, trail + (["as"] if rv["k"] == "cast" else []))
                elif rv["k"] == "bin":
                    for o in (rv["l"], rv["r"]):
                        if o.place is not None:
                            walk(o.place.local, depth + 1, trail + [rv["op"]])
                elif rv["k"] == "un" and rv["o"].place is not None:
                    walk(rv["o"].place.local, depth + 1, trail + [rv["op"]])
                elif rv["k"] == "ref":
                    walk(rv["place"].local, depth + 1, trail)
    walk(start, 0, [])
    return steps if found[0] else None


def result_sources(body, pv, max_depth=10):
    """the calls / constants / aggregates whose value becomes the function's result, following plain moves and copies back from `_0`:
    list of ('call', terminator) | ('const', operand) | ('other', stmt)"""
    defs = pv.defs(body)
    out = []
    seen = set()

    def walk(local, depth):
        if depth > max_depth or local in seen:
            return
        seen.add(local)
        for kind, pos, d in defs.get(local, []):
            if kind == "call":
                out.append(("call", d))
            else:
                rv = d.rv
                if rv["k"] == "use" and rv["op"].kind == "const":
                    out.append(("const", rv["op"]))
                elif rv["k"] in ("use",) and rv["op"].place is not None and rv["op"].place.is_local():
                    walk(rv["op"].place.local, depth + 1)
                else:
                    out.append(("other", d))
    walk(0, 0)
    return out


def private_scope(prog, body, depth=4):
    """the function with its closures, plus the crate-PRIVATE code it reaches (helpers in any module, methods of private types, and the
    per-type implementations of crate traits that are called through a type parameter): list of bodies"""
    seen = {}
    work = [(body, 0)]
    while work:
        b, d = work.pop()
        for fb in prog.family(b):
            if fb.id in seen:
                continue
            seen[fb.id] = fb
            if d >= depth:
                continue
            for _, t in fb.calls():
                tg = prog.bodies.get(t.callee.res or "")
                if tg is not None and tg.kind in ("Fn", "AssocFn") and not tg.test and not (tg.exported or tg.reachable) and tg.id not in seen:
                    work.append((tg, d + 1))
                elif t.callee.res is None and t.callee.trait and not t.callee.trait.startswith(("std::", "core::", "alloc::")):
                    for y in prog.production():
                        if y.kind == "AssocFn" and y.impl_trait == t.callee.trait and y.name == t.callee.method and y.id not in seen and not y.exported:
                            work.append((y, d + 1))
    return list(seen.values())


def receiver_calls(body, pv, op):
    """the call terminators between an operand and its source, walking receivers (args[0]) backwards (outermost first)"""
    out = []
    cur = op
    seen = set()
    defs = pv.defs(body)
    while cur is not None and cur.place is not None and cur.place.local not in seen:
        l = cur.place.local
        seen.add(l)
        if 1 <= l <= body.nargs:
            break  # a parameter: the chain starts here (writes THROUGH it, `self.field = ..`, are not where it comes from)
        nxt = None
        for kind, pos, d in defs.get(l, []):
            if kind == "assign" and not d.place.is_local():
                continue
            if kind == "call":
                out.append(d)
                nxt = d.args[0] if d.args else None
            elif d.rv["k"] in ("use", "cast"):
                nxt = d.rv["op"]
            elif d.rv["k"] == "ref":
                class _O:
                    pass
                o = _O()
                o.place = d.rv["place"]
                o.kind = "copy"
                nxt = o
        cur = nxt
    return out


# `pop` / `drain` are not listed: a work list emptied with `while let Some(x) = stack.pop()` and the tail drains of a sorted merge
# process every element
HARD_TRUNCATIONS = {"take", "skip", "step_by", "take_while", "skip_while", "nth", "map_while", "last", "chunks", "windows", "truncate", "split_off"}


def hard_truncations(prog, body, allow=()):
    """hard truncating adaptors (take/skip/step_by/...) in the iteration pipelines of a body and its closures:
    list of (body, term).  `allow` = method names that are part of the function's contract (e.g. the name truncation)."""
    out = []
    for fb in prog.family(body):
        for bi, t in fb.calls():
            if t.callee.method in HARD_TRUNCATIONS and t.callee.method not in allow:
                da = t.callee.def_args or ""
                if t.callee.method in ("last", "first") and t.callee.trait != "std::iter::Iterator":
                    continue  # `slice.last()` looks at one element; only Iterator::last consumes (and drops) the others
                if t.callee.trait == "std::iter::Iterator" or "Iterator" in da or "Vec" in da or "SmallVec" in da or "slice" in da:
                    out.append((fb, t))
    return out


def check_complete_iteration(ck, rule, prog, body_ids, what, allow=()):
    """every listed function processes ALL elements of what it iterates: no hard truncation in its pipelines"""
    n = 0
    for bid in body_ids:
        b = prog.body(bid) if isinstance(bid, str) else bid
        if b is None:
            continue
        n += 1
        cut = hard_truncations(prog, b, allow)
        ck.ob(rule, "complete-iteration/" + b.short, not cut,
              ("%s iterates %s completely" % (b.short, what)) if not cut else
              ("%s drops elements with `%s` (line %s): part of %s is silently not processed" % (b.short, cut[0][1].callee.method, cut[0][1].line, what)), where=b.where(cut[0][1].line if cut else None))
    return n


def error_blocks(body):
    """blocks that build an error result (Err / None aggregate into _0, from_residual into _0)"""
    out = set()
    for bi in body.reach:
        blk = body.blocks[bi]
        for st in blk.stmts:
            if st.k == "assign" and st.place.local == 0 and st.rv["k"] == "agg" and st.rv.get("variant") in ("Err",):
                out.add(bi)
        if blk.term.k == "call" and blk.term.callee.method == "from_residual" and blk.term.dest.is_local() and blk.term.dest.local == 0:
            out.add(bi)
    return out


def success_path_avoiding(body, required_blocks):
    """True if some path from the entry to a return avoids every block of `required_blocks` and every error block
    (i.e. the function can SUCCEED without performing the required step)"""
    avoid = set(required_blocks) | error_blocks(body)
    if 0 in avoid:
        return False
    reach = body.reachable_from(0, avoid_blocks=avoid)
    return any(e in reach for e in body.exits)


def check_required_steps(ck, rule, prog, body, steps):
    """steps: list of (label, predicate(term) -> bool).  Every success path of `body` must pass a call satisfying each predicate.
    For calls inside loops the loop header counts (a loop may run zero times)."""
    loops = body.natural_loops()
    from prov import Prov
    pv_ = Prov(prog, inline=False)
    for label, pred in steps:
        blocks = set()
        for bi, t in body.calls():
            hit = pred(t)
            if not hit and len(t.args) >= 2:
                # the step is performed inside a closure handed to this call (for_each / try_for_each / map / ...): the adaptor call
                # is the step site (an iterator may be empty, exactly as a loop may run zero times)
                for a in t.args[1:]:
                    cb = prog.bodies.get(pv_.closure_of_operand(body, a) or "")
                    if cb is not None and cb.kind == "Closure":
                        nest = [x for x in prog.bodies.values() if x.id == cb.id or x.id.startswith(cb.id + "::{closure")]
                        if any(pred(ct) for fb in nest for _, ct in fb.calls()):
                            hit = True
            if not hit:
                # ... or inside a private helper this call resolves to (one or two levels down: `calculate` -> `pairwise_scores`)
                tg = prog.bodies.get(t.callee.res) if t.callee.res else None
                # (... or to a method of the same impl, public or not: `calculate` -> the new fallible sibling `try_calculate(..).expect(..)`)
                same_impl = tg is not None and tg.impl_self is not None and tg.impl_self == body.impl_self and (tg.file or "") == (body.file or "")
                if tg is not None and tg.kind in ("Fn", "AssocFn") and (not tg.reachable or same_impl) and not tg.impl_trait and tg.id != body.id:
                    seen_h = set()
                    work_h = [(tg, 0)]
                    while work_h and not hit:
                        hb, d = work_h.pop()
                        if hb.id in seen_h:
                            continue
                        seen_h.add(hb.id)
                        for fb in prog.family(hb):
                            for _, ct in fb.calls():
                                if pred(ct):
                                    hit = True
                                    break
                                nb = prog.bodies.get(ct.callee.res) if ct.callee.res else None
                                if d < 1 and nb is not None and nb.kind in ("Fn", "AssocFn") and not nb.reachable and not nb.impl_trait:
                                    work_h.append((nb, d + 1))
                            if hit:
                                break
            if not hit:
                # ... or inside a trait method of a private type this call constructs (`v.extend(PairwiseScores::new(..))`: the step sits in
                # `<PairwiseScores as Iterator>::next`, which the consuming std adaptor drives)
                tg = prog.bodies.get(t.callee.res) if t.callee.res else None
                adt_ = (tg.impl_self or {}).get("adt") if tg is not None and tg.kind == "AssocFn" and not tg.impl_trait else None
                if adt_ and not (prog.adts.get(adt_, {}).get("pub") and tg.exported):
                    for xb in prog.production():
                        if xb.kind == "AssocFn" and xb.impl_trait and (xb.impl_self or {}).get("adt") == adt_:
                            if any(pred(ct) for fb in prog.family(xb) for _, ct in fb.calls()):
                                hit = True
                                break
            if hit:
                blocks.add(bi)
                # innermost..outermost loop headers containing the call
                for h, bl in loops.items():
                    if bi in bl:
                        blocks.add(h)
        if not blocks:
            ck.ob(rule, "required-step/%s/%s" % (body.short, label), False, "%s never performs the step `%s`" % (body.short, label), where=body.where())
            continue
        # `if let Some(first) = iter.next() { .. steps .. }`: like a loop that may run zero times, an iterator may be empty - the `next()` that
        # guards the steps counts as their site
        for nbi, nt in body.calls():
            if nt.callee.method == "next" and nt.callee.trait == "std::iter::Iterator" and nt.target is not None and body.loop_of(nbi) is None:
                sw = body.blocks[nt.target].term
                if sw.k == "switch":
                    some = [tg for v, tg in sw.targets if v == 1]
                    if some and any(body.edge_dominates((nt.target, some[0]), hb_) for hb_ in list(blocks)):
                        blocks.add(nbi)
        # a step that sits in a loop runs zero times for an empty collection anyway: a way out that is taken only when a LENGTH is zero
        # (`if rows * cols == 0 { return .. }`, `if xs.is_empty() { return .. }`) skips nothing.  The zero branch counts as the step's site when it
        # is a block of its own.
        if any(h in blocks for h in loops):
            # ... of the collection(s) those loops walk: the tested length and the loop's iterator share a parameter / field
            roots_ = lambda atoms: {(a[0], a[1], a[2]) for a in atoms if a[0] in ("param", "field")}
            loop_roots = set()
            for h, bl in loops.items():
                if h in blocks:
                    for x_ in bl:
                        nt_ = body.blocks[x_].term
                        if nt_.k == "call" and nt_.callee.method == "next" and nt_.callee.trait == "std::iter::Iterator" and nt_.args:
                            loop_roots |= roots_(pv_.of_operand(body, nt_.args[0]))
            def same_coll(atoms):
                """the tested collection is the one the loop walks: they share a FIELD (`self.orpha_diseases`), or - when neither is a field of
                something - a parameter"""
                r_ = roots_(atoms)
                fa, fb = {x for x in r_ if x[0] == "field"}, {x for x in loop_roots if x[0] == "field"}
                if fa or fb:
                    return bool(fa & fb)
                return bool(r_ & loop_roots)
            is_len = lambda atoms: any(a[0] == "call" and a[1].rsplit("::", 1)[-1] in ("len", "count") for a in atoms) and same_coll(atoms)
            for z in zero_test_edges(body, pv_, is_len):
                for (sb_, tg_) in z["zero_edges"]:
                    if len([p_ for p_ in body.pred[tg_] if p_ in body.reach]) == 1:
                        blocks.add(tg_)
            for ebi, et in body.calls():
                if et.callee.method == "is_empty" and len(et.args) == 1 and same_coll(pv_.of_operand(body, et.args[0])):
                    for (sb_, tg_) in positive_edges(body, pv_, ebi):
                        if len([p_ for p_ in body.pred[tg_] if p_ in body.reach]) == 1:
                            blocks.add(tg_)
        skip = success_path_avoiding(body, blocks)
        ck.ob(rule, "required-step/%s/%s" % (body.short, label), not skip, "%s %s" % (body.short, ("performs `%s` on every path that succeeds" % label) if not skip else ("can return successfully WITHOUT `%s` (an early return or a guard skips it)" % label)), where=body.where())


# ---------------------------------------------------------------------------------------------------------------
# exact truth table of a boolean function body (predicate closure) over its atomic comparisons

EQ_METHODS = {"eq": ("Eq", False), "ne": ("Eq", True), "lt": ("Lt", False), "ge": ("Lt", True), "gt": ("Gt", False), "le": ("Gt", True)}
EQ_BINOPS = {"Eq": ("Eq", False), "Ne": ("Eq", True), "Lt": ("Lt", False), "Ge": ("Lt", True), "Gt": ("Gt", False), "Le": ("Gt", True)}


def bool_table(body, atom_key, max_paths=4096, call_atom=None, place_atom=None, value_result=False):
    """Enumerate the paths of a loop-free boolean body.  Atomic predicates are comparison calls / binary comparisons;
    `atom_key(kind, lhs_operand, rhs_operand, body)` names one (hashable) or returns None (unknown -> whole table undecided).
    kind is the positive comparison ('Eq' | 'Lt' | 'Gt'); negated forms (ne, ge, le) are folded into the polarity.
    Returns a list of (assignment {key: bool}, result) with result True | False | ('atom', key, negated), or None when the body
    is not a recognisable pure predicate (loop, unknown call, switch on a non-boolean).
    Optional: `call_atom(call_terminator, body)` names the boolean result of another call (`x.is_empty()`), `place_atom(place, body)` a boolean
    read from memory (`self.flag`)."""
    if body.natural_loops():
        return None
    rows = []
    budget = [max_paths]

    def val_of(env, op):
        if op.kind == "const":
            v = op.int_value()
            if v is None and op.const.get("ty") == "bool":
                v = 1 if op.const.get("val") == "true" else 0
            return ("c", bool(v)) if v is not None else None
        if op.place is not None and op.place.is_local():
            return env.get(op.place.local)
        if op.place is not None and place_atom is not None:
            k = place_atom(op.place, body)
            return None if k is None else ("a", k, False)
        return None

    def walk(bi, env, asg):
        budget[0] -= 1
        if budget[0] < 0:
            raise OverflowError
        blk = body.blocks[bi]
        env = dict(env)
        for st in blk.stmts:
            if st.k != "assign" or not st.place.is_local():
                continue
            rv = st.rv
            l = st.place.local
            if value_result and l == 0:
                # which kind of value the function returns on this path: a float / integer constant, or something computed
                fv = rv["op"].float_value() if rv["k"] == "use" and rv["op"].kind == "const" else None
                if fv is None and rv["k"] == "use" and rv["op"].kind == "const" and rv["op"].int_value() is not None:
                    fv = float(rv["op"].int_value())
                env["ret"] = ("const", fv) if fv is not None else ("expr",)
                continue
            if rv["k"] == "use":
                env[l] = val_of(env, rv["op"])
            elif rv["k"] == "un" and rv["op"] == "Not":
                v = val_of(env, rv["o"])
                env[l] = None if v is None else (("c", not v[1]) if v[0] == "c" else ("a", v[1], not v[2]))
            elif rv["k"] == "bin" and rv["op"] in EQ_BINOPS:
                kind, neg = EQ_BINOPS[rv["op"]]
                k = atom_key(kind, rv["l"], rv["r"], body)
                env[l] = None if k is None else ("a", k, neg)
            else:
                env[l] = None
        t = blk.term
        if t.k == "call":
            c = t.callee
            if c.trait in ("std::cmp::PartialEq", "std::cmp::PartialOrd") and c.method in EQ_METHODS and len(t.args) == 2 and t.dest is not None and t.dest.is_local():
                kind, neg = EQ_METHODS[c.method]
                k = atom_key(kind, t.args[0], t.args[1], body)
                env[t.dest.local] = None if k is None else ("a", k, neg)
            elif t.dest is not None and t.dest.is_local():
                k = call_atom(t, body) if call_atom is not None else None
                env[t.dest.local] = None if k is None else ("a", k, False)
                if value_result and t.dest.local == 0:
                    env["ret"] = ("expr",)
            if t.target is None:
                return
            walk(t.target, env, asg)
        elif t.k == "goto" or t.k == "drop" or t.k == "assert" or t.k == "falseedge":
            if t.target is not None:
                walk(t.target, env, asg)
        elif t.k == "switch":
            v = val_of(env, t.discr)
            if v is None:
                raise ValueError("switch on an unrecognised value at line %s" % t.line)
            zero = [tg for val, tg in t.targets if val == 0]
            if len(t.targets) != 1 or not zero:
                raise ValueError("non-boolean switch at line %s" % t.line)
            f_tg, t_tg = zero[0], t.otherwise
            if v[0] == "c":
                walk(t_tg if v[1] else f_tg, env, asg)
            else:
                _, k, neg = v
                for truth in (True, False):
                    # truth of the switched VALUE; the atom itself is truth ^ neg
                    a = truth != neg
                    if k in asg and asg[k] != a:
                        continue
                    na = dict(asg)
                    na[k] = a
                    walk(t_tg if truth else f_tg, env, na)
        elif t.k == "return" and value_result:
            rows.append((asg, env.get("ret", ("expr",))))
        elif t.k == "return":
            r = env.get(0)
            if r is None:
                raise ValueError("returned value not recognised")
            rows.append((asg, r[1] if r[0] == "c" else ("atom", r[1], r[2])))
        elif t.k == "unreachable":
            return
        else:
            raise ValueError("terminator %s" % t.k)

    try:
        walk(0, {}, {})
    except (ValueError, OverflowError, RecursionError):
        return None
    return rows


def eval_bool_table(rows, full):
    """value of the predicate under the total assignment `full` ({key: bool}); None if no path matches"""
    for asg, r in rows:
        if all(full.get(k) == v for k, v in asg.items()):
            if r is True or r is False:
                return r
            _, k, neg = r
            if k not in full:
                return None
            return full[k] != neg
    return None


# ---------------------------------------------------------------------------------------------------------------
# per-element rules on `for` loops: a step runs for EVERY element (no `continue`/guard around it), no early `break`

def for_loops(body):
    """natural loops driven by Iterator::next (for / while-let-next): list of dict(header, blocks, next_bb, switch_bb,
    some, none, iter (receiver operand of next), line)"""
    out = []
    for h, blocks in body.natural_loops().items():
        for bi in sorted(blocks):
            t = body.blocks[bi].term
            if t.k != "call" or t.callee.method != "next" or t.callee.trait != "std::iter::Iterator" or t.target is None or t.dest is None or not t.dest.is_local():
                continue
            # innermost loop of this next() must be this loop
            lo = body.loop_of(bi)
            if lo is None or lo[0] != h:
                continue
            sb = t.target
            st = body.blocks[sb].term
            if st.k != "switch":
                continue
            none = [tg for v, tg in st.targets if v == 0]
            some = [tg for v, tg in st.targets if v == 1]
            if not none or not some:
                continue
            if none[0] in blocks and some[0] not in blocks:
                continue
            out.append({"header": h, "blocks": blocks, "next_bb": bi, "switch_bb": sb, "some": some[0], "none": none[0], "iter": t.args[0], "line": t.line})
            break
    return out


def loop_skip_path(body, loop, step_blocks):
    """True if one iteration (from the Some-arm back to the header) can complete without entering `step_blocks`"""
    steps = set(step_blocks)
    if loop["some"] in steps:
        return False
    seen = set()
    st = [loop["some"]]
    while st:
        x = st.pop()
        if x == loop["header"]:
            return True
        if x in seen or x in steps or x not in loop["blocks"]:
            continue
        seen.add(x)
        st.extend(body.succ[x])
    return False


def loop_early_exits(body, loop):
    """edges that leave the loop other than through the exhaustion (None) arm and that can still reach a normal return:
    `break` / `return Ok(..)` in the middle of the iteration"""
    errs = error_blocks(body)
    out = []
    for x in sorted(loop["blocks"]):
        for y in body.succ[x]:
            if y in loop["blocks"]:
                continue
            if x == loop["switch_bb"] and y == loop["none"]:
                continue
            if body.blocks[y].term.k == "unreachable":
                continue
            reach = body.reachable_from(y, avoid_blocks=errs)
            if y not in errs and any(e in reach for e in body.exits):
                out.append((x, y))
    return out


def assignments_to(body, local, blocks=None):
    """blocks (optionally restricted) that assign `local` (whole local) by a statement or a call destination"""
    out = set()
    for bi in sorted(body.reach):
        if blocks is not None and bi not in blocks:
            continue
        blk = body.blocks[bi]
        for st in blk.stmts:
            if st.k == "assign" and st.place.is_local() and st.place.local == local:
                out.add(bi)
        t = blk.term
        if t.k == "call" and t.dest is not None and t.dest.is_local() and t.dest.local == local:
            out.add(bi)
    return out


SOFT_FILTERS = {"filter", "filter_map", "flat_map", "find", "find_map", "skip_while", "take_while", "map_while", "skip", "take", "step_by", "nth", "last", "dedup", "dedup_by_key", "retain", "peekable"}


def chain_filters(body, pv, op, allow=()):
    """filtering / truncating adaptors on the receiver chain of an operand (see adaptor_chain)"""
    return [m for m in adaptor_chain(body, pv, op) if m in SOFT_FILTERS and m not in allow]


def check_every_element(ck, rule, key, body, loop, step_blocks, step_desc, elems_desc, excused=None):
    """the step runs once for EVERY element the loop visits, and the loop visits all of them.
    excused = (blocks, reason): if every way round the step leads through one of these blocks, the skip is recorded as undecided with that reason"""
    if not step_blocks:
        ck.ob(rule, key + "/every", False, "%s: the loop over %s never performs `%s`" % (body.short, elems_desc, step_desc), where=body.where(loop["line"]))
        return
    skip = loop_skip_path(body, loop, step_blocks)
    if skip and excused and excused[0] and not loop_skip_path(body, loop, set(step_blocks) | set(excused[0])):
        ck.undecided(rule, key + "/every", excused[1], where=body.where(loop["line"]))
    else:
      ck.ob(rule, key + "/every", not skip, "%s: `%s` %s" % (body.short, step_desc, ("runs for every element of %s" % elems_desc) if not skip else ("is SKIPPED for some elements of %s (a `continue` or a guard bypasses it)" % elems_desc)), where=body.where(loop["line"]))
    ex = loop_early_exits(body, loop)
    ck.ob(rule, key + "/all", not ex, "%s: the loop over %s %s" % (body.short, elems_desc, "ends only when the iterator is exhausted" if not ex else "can be left early (line %s) and still return normally: the remaining elements are not processed" % body.blocks[ex[0][0]].term.line), where=body.where(loop["line"]))


def source_local(body, op, pv):
    """follow plain copies/moves of whole locals backwards from an operand; returns the first local with another kind of definition"""
    defs = pv.defs(body)
    seen = set()
    cur = op.place.local if op.place is not None and op.place.is_local() else None
    while cur is not None and cur not in seen:
        seen.add(cur)
        ds = defs.get(cur, [])
        uses = [d for kind, pos, d in ds if kind == "assign" and d.rv["k"] == "use" and d.rv["op"].place is not None and d.rv["op"].place.is_local()]
        if len(ds) == 1 and uses:
            cur = uses[0].rv["op"].place.local
        else:
            return cur
    return cur


# ---------------------------------------------------------------------------------------------------------------
# delegation fidelity of iterator wrappers

ITER_PROTOCOL = {"next", "next_back", "size_hint", "len", "nth", "nth_back", "count", "last"}


def iterator_delegations(prog, file_rx):
    """impls of iterator-protocol methods in the crate whose result IS the result of an iterator-protocol method of an inner
    iterator (tail delegation): list of dict(body, impl_method, callee_method, line).  A wrapper's `next_back` answering with the
    inner `next` reverses nothing; `next` answering with `next_back` walks backwards."""
    out = []
    for b in prog.production():
        if b.kind not in ("Fn", "AssocFn") or not re.search(file_rx, b.file or "") or b.name not in ITER_PROTOCOL:
            continue
        if not b.impl_trait or not re.search(r"iter::(Iterator|DoubleEndedIterator|ExactSizeIterator)$", b.impl_trait if isinstance(b.impl_trait, str) else str(b.impl_trait)):
            continue
        for bi, t in b.calls():
            if t.dest is not None and t.dest.is_local() and t.dest.local == 0 and t.callee.method in ITER_PROTOCOL and t.callee.trait and re.search(r"iter::(Iterator|DoubleEndedIterator|ExactSizeIterator)$", t.callee.trait):
                out.append({"body": b, "impl_method": b.name, "callee_method": t.callee.method, "line": t.line})
    return out


def check_iterator_delegations(ck, rule, prog, file_rx, floor=0):
    ds = iterator_delegations(prog, file_rx)
    for d in ds:
        ok = d["impl_method"] == d["callee_method"]
        ck.ob(rule, "delegate/%s" % d["body"].short, ok, "%s answers with the inner iterator's `%s`%s" % (d["body"].short, d["callee_method"], "" if ok else " (expected `%s`): the wrapper does not implement the protocol method it claims" % d["impl_method"]), where=d["body"].where(d["line"]))
    if floor:
        ck.floor(rule, "iterator wrappers delegating the protocol", len(ds), floor, soft=True)
    return len(ds)


# ---------------------------------------------------------------------------------------------------------------
# accessor fidelity: a method named after a field returns THAT field, not a sibling of the same type

GETTER_ALIAS = {
    ("term::information_content::InformationContent", "omim_disease"): "omim",
    ("term::information_content::InformationContent", "orpha_disease"): "orpha",
    ("stats::linkage::cluster::Cluster", "lhs"): "idx1",
    ("stats::linkage::cluster::Cluster", "rhs"): "idx2",
    ("stats::linkage::cluster::Cluster", "len"): "size",
    ("stats::Enrichment", "id"): "annotation",
    ("stats::SampleSet", "len"): "size",
    ("annotations::gene::Gene", "hpo_terms"): "hpos",
    ("annotations::gene::Gene", "symbol"): "name",
    ("annotations::omim_disease::OmimDisease", "hpo_terms"): "hpos",
    ("annotations::orpha_disease::OrphaDisease", "hpo_terms"): "hpos",
    ("ontology::comparison::HpoTermDelta", "id"): "term_id",
    ("ontology::comparison::AnnotationDelta", "changed_name"): "names",
}


def getter_findings(prog, file_rx=r".*"):
    """methods `fn f(&self | &mut self)` / `fn f_mut(&mut self)` of a crate struct that has a field `f`:
    list of dict(body, field, got (fields of self the result derives from), verdict True|False|None)
    False: the result derives from another field of the SAME TYPE and not from `f` (copy-paste between siblings)."""
    from prov import Prov, field_names
    pv = Prov(prog, inline=False)
    out = []
    for b in sorted(prog.production(), key=lambda b: b.id):
        if b.kind != "AssocFn" or b.nargs != 1 or not b.impl_self or not re.search(file_rx, b.file or ""):
            continue
        adt = b.impl_self.get("adt")
        a = prog.adts.get(adt)
        if not a or a.get("enum"):
            continue
        ftypes = {fl["name"]: fl["ty"] for v in a["variants"] for fl in v["fields"]}
        base = re.sub(r"_mut$", "", b.name or "")
        base = GETTER_ALIAS.get((adt, base), base)
        if base not in ftypes:
            continue
        got = field_names(pv.of_return(b), adt) & set(ftypes)
        mixed = False
        if base in got:
            verdict = True
            # a flag / number handed out by value is that field and nothing else: `obsolete() -> self.obsolete || self.replacement.is_some()`
            # couples two facts the data keeps apart
            if len(got) > 1 and str(b.locals[0].get("s", "")) in ("bool", "u8", "u16", "u32", "u64", "usize", "i32", "i64", "f32", "f64"):
                verdict = False
                mixed = True
        else:
            same = [g for g in got if ftypes[g] == ftypes[base]]
            verdict = False if same else None
        if str(b.locals[0].get("s", "")) == "bool" and ftypes.get(base) == "bool" and not b.natural_loops():
            # a flag getter written with branches (`self.flag || other_test`): data flow alone misses the fields it BRANCHES on
            import itertools

            def place_atom(pl, body):
                fs = [e for e in pl.fields() if e != "*"]
                if pl.local == 1 and len(fs) == 1 and fs[0][0] == "f":
                    return ("field", fs[0][1])
                return None

            def call_atom(t, body):
                fl = field_names(pv.of_operand(body, t.args[0]), adt) & set(ftypes) if t.args else set()
                return ("call", t.callee.method, tuple(sorted(fl))) if fl else None
            rows = bool_table(b, lambda *a_: None, call_atom=call_atom, place_atom=place_atom)
            if rows is not None:
                keys = sorted({k for asg, r in rows for k in asg} | {r[1] for asg, r in rows if isinstance(r, tuple)}, key=str)
                me = ("field", base)
                differs = None
                for bits in itertools.product((False, True), repeat=len(keys)):
                    full = dict(zip(keys, bits))
                    if eval_bool_table(rows, full) != full.get(me):
                        differs = full
                        break
                if me in keys and differs is not None:
                    verdict, mixed = False, True
                    got = got | {k[1] if k[0] == "field" else "/".join(k[2]) for k in keys}
        out.append({"body": b, "field": base, "got": got, "verdict": verdict, "mixed": mixed})
    return out


def check_getters(ck, rule, prog, file_rx, floor=0):
    n = 0
    for g in getter_findings(prog, file_rx):
        if g["verdict"] is None:
            continue
        n += 1
        b = g["body"]
        ck.ob(rule, "getter/%s" % b.short, g["verdict"], "%s returns %s" % (b.short, ("its field `%s`" % g["field"]) if g["verdict"] else ("a value that also depends on `%s`, not the field `%s` alone" % ("/".join(sorted(g["got"] - {g["field"]})), g["field"])) if g.get("mixed") else ("the field `%s` (same type) instead of `%s`" % ("/".join(sorted(g["got"])), g["field"]))), where=b.where())
    if floor:
        ck.floor(rule, "accessors named after a field", n, floor, soft=True)
    return n


def ctor_findings(prog, file_rx=r".*"):
    """struct literals `S { f: <value>, .. }` in functions that have a parameter NAMED like the field f: the value stored in f
    derives from that parameter and not (only) from another parameter of the same type.
    list of dict(body, adt, field, want (param name), got (param names), verdict)"""
    from prov import Prov, params_of
    pv = Prov(prog, inline=False)
    out = []
    for b in sorted(prog.production(), key=lambda b: b.id):
        if b.kind not in ("Fn", "AssocFn") or not re.search(file_rx, b.file or "") or not b.arg_names:
            continue
        byname = {nm: p for p, nm in b.arg_names.items()}
        for pos, st in b.stmts():
            if not (st.k == "assign" and st.rv["k"] == "agg" and st.rv.get("agg") == "adt" and st.rv.get("fields")):
                continue
            adt = st.rv.get("adt", "")
            if adt not in prog.adts:
                continue
            for f, o in zip(st.rv["fields"], st.rv["ops"]):
                if f not in byname:
                    continue
                ps = params_of(pv.of_operand(b, o), b.id)
                want = byname[f]
                if want in ps:
                    verdict = True
                else:
                    same = [p for p in ps if b.locals[p]["s"] == b.locals[want]["s"]]
                    verdict = False if same else None
                out.append({"body": b, "adt": adt, "field": f, "want": f, "got": sorted(b.arg_names.get(p, "_%d" % p) for p in ps), "verdict": verdict, "line": st.line})
    return out


def check_ctors(ck, rule, prog, file_rx, floor=0):
    n = 0
    for g in ctor_findings(prog, file_rx):
        if g["verdict"] is None:
            continue
        n += 1
        b = g["body"]
        ck.ob(rule, "ctor/%s/%s" % (b.short, g["field"]), g["verdict"], "%s stores %s in the field `%s`" % (b.short, ("its parameter `%s`" % g["want"]) if g["verdict"] else ("the parameter `%s` (same type) instead of `%s`" % ("/".join(g["got"]), g["want"])), g["field"]), where=b.where(g["line"]))
    if floor:
        ck.floor(rule, "constructor fields named after a parameter", n, floor, soft=True)
    return n


def filter_guard_calls(prog, pv, atoms, pred):
    """calls satisfying `pred` that positively guard the ELEMENTS of an iterator pipeline: for each `filter` / `take_while` /
    `skip_while`-free `filter` adaptor among the provenance atoms, the predicate closure keeps an element iff that call is true.
    returns list of (closure body, call terminator)"""
    out = []
    for a in atoms:
        if a[0] != "call" or not re.search(r"::(filter|filter_map|find)$", a[1]) or a[3] not in prog.bodies:
            continue
        fb = prog.bodies[a[3]]
        t = fb.blocks[a[4]].term
        if t.k != "call" or len(t.args) < 2:
            continue
        cb = prog.bodies.get(pv.closure_of_operand(fb, t.args[1]) or "")
        if cb is None or cb.kind != "Closure":
            continue
        pvc = Prov(prog, inline=False, bind_closures=False)
        pol, ct = bool_polarity(cb, pvc, pred)
        if pol == 1 and ct is not None:
            out.append((cb, ct))
    return out


# =====================================================================================================
# integer comparisons as decisions
# =====================================================================================================
REL_TRUTH = {"Lt": {"lt"}, "Le": {"lt", "eq"}, "Gt": {"gt"}, "Ge": {"gt", "eq"}, "Eq": {"eq"}, "Ne": {"lt", "gt"}}


def compare_switches(body, pv):
    """switches that branch on one comparison `l OP r`: list of dict(bb, op, l, r, true_tg, false_tg, line).
    A `!` between the comparison and the switch swaps the targets."""
    out = []
    defs = pv.defs(body)
    for bi in sorted(body.reach):
        x = body.blocks[bi].term
        if x.k != "switch" or x.discr.place is None or not x.discr.place.is_local() or x.discr_ty != "bool":
            continue
        l = x.discr.place.local
        neg = False
        st = None
        seen = set()
        while l is not None and l not in seen:
            seen.add(l)
            ds = defs.get(l, [])
            if len(ds) != 1 or ds[0][0] != "assign":
                break
            rv = ds[0][2].rv
            if rv["k"] == "bin" and rv["op"] in REL_TRUTH:
                st = ds[0][2]
                break
            if rv["k"] == "un" and rv["op"] == "Not" and rv["o"].place is not None and rv["o"].place.is_local():
                neg = not neg
                l = rv["o"].place.local
            elif rv["k"] == "use" and rv["op"].place is not None and rv["op"].place.is_local():
                l = rv["op"].place.local
            else:
                break
        if st is None:
            continue
        tg = dict(x.targets)
        if 0 in tg:
            false_tg, true_tg = tg[0], ([t for v, t in x.targets if v != 0] or [x.otherwise])[0]
        else:
            true_tg, false_tg = ([t for v, t in x.targets if v != 0] or [None])[0], x.otherwise
        if neg:
            true_tg, false_tg = false_tg, true_tg
        out.append({"bb": bi, "op": st.rv["op"], "l": st.rv["l"], "r": st.rv["r"], "true_tg": true_tg, "false_tg": false_tg, "line": st.line})
    return out


def relation_cases(cs, swap=False):
    """for a compare_switches entry: {'lt' | 'eq' | 'gt' (of l against r; of r against l with swap): target block}"""
    flip = {"lt": "gt", "gt": "lt", "eq": "eq"}
    out = {}
    for case in ("lt", "eq", "gt"):
        c = flip[case] if swap else case
        out[case] = cs["true_tg"] if c in REL_TRUTH[cs["op"]] else cs["false_tg"]
    return out


# =====================================================================================================
# size_hint is a bound, not a count
# =====================================================================================================
HINT_SINK_OK = {"with_capacity", "reserve", "reserve_exact", "try_reserve", "try_reserve_exact", "with_capacity_and_hasher"}
HINT_PASS = {"unwrap_or", "unwrap_or_default", "unwrap", "expect", "max", "min", "saturating_add", "saturating_sub", "saturating_mul", "checked_add", "checked_sub", "checked_mul",
             "wrapping_add", "wrapping_sub", "into", "try_into", "from", "try_from", "clone", "next_power_of_two", "div_ceil"}


def size_hint_counts(prog, file_rx=r".*"):
    """values taken from `Iterator::size_hint` (a lower / upper BOUND) that end up stored in a field of a crate type or returned as a
    count, instead of only sizing an allocation: list of (body, line, what).  Intra-procedural forward taint over locals."""
    out = []
    for b in prog.production():
        if b.kind not in ("Fn", "AssocFn", "Closure") or not re.search(file_rx, b.file or ""):
            continue
        seeds = {t.dest.local for bi, t in b.calls() if t.callee.method == "size_hint" and t.dest is not None and t.dest.is_local()}
        if not seeds:
            continue
        tainted = set(seeds)
        changed = True
        while changed:
            changed = False
            for pos, st in b.stmts():
                if st.k != "assign" or st.place.local in tainted:
                    continue
                rv = st.rv
                ops = []
                if rv["k"] in ("use", "cast", "repeat"):
                    ops = [rv["op"]]
                elif rv["k"] == "bin":
                    ops = [rv["l"], rv["r"]]
                elif rv["k"] == "un":
                    ops = [rv["o"]]
                elif rv["k"] == "agg" and rv.get("agg") in ("tuple", "array"):
                    ops = rv["ops"]
                elif rv["k"] == "agg" and rv.get("variant") in ("Some", "Ok"):
                    ops = rv["ops"]
                if any(o.place is not None and o.place.local in tainted for o in ops) and st.place.is_local():
                    tainted.add(st.place.local)
                    changed = True
            for bi, t in b.calls():
                if t.dest is None or not t.dest.is_local() or t.dest.local in tainted or t.callee.method in HINT_SINK_OK:
                    continue
                if t.callee.method in HINT_PASS and any(a.place is not None and a.place.local in tainted for a in t.args):
                    tainted.add(t.dest.local)
                    changed = True
        for pos, st in b.stmts():
            if st.k != "assign":
                continue
            rv = st.rv
            if rv["k"] == "agg" and rv.get("agg") == "adt" and rv.get("adt") in prog.adts:
                for f, o in zip(rv.get("fields", []), rv["ops"]):
                    if o.place is not None and o.place.local in tainted:
                        out.append((b, st.line, "field `%s` of %s" % (f, rv["adt"].rsplit("::", 1)[-1])))
            elif not st.place.is_local() and any(e != "*" and e[0] == "f" and e[2] in prog.adts for e in st.place.fields()):
                ops = [rv.get("op")] if rv["k"] in ("use", "cast") else []
                if any(o is not None and o.place is not None and o.place.local in tainted for o in ops):
                    f = [e for e in st.place.fields() if e != "*" and e[0] == "f"][-1]
                    out.append((b, st.line, "field `%s` of %s" % (f[1], f[2].rsplit("::", 1)[-1])))
    return out


def check_size_hint_counts(ck, rule, prog, file_rx):
    fs = size_hint_counts(prog, file_rx)
    n = len([1 for b in prog.production() if re.search(file_rx, b.file or "") for bi, t in b.calls() if t.callee.method == "size_hint"])
    for b, line, what in fs:
        ck.ob(rule, "size-hint/%s" % b.short, False, "%s stores a value taken from Iterator::size_hint in %s: size_hint is only a bound (0 for filter / flat_map / from_fn, the head's length for chain), not the number of items" % (b.short, what), where=b.where(line))
    if not fs:
        ck.ob(rule, "size-hint", True, "no value of Iterator::size_hint is stored as a count (%d size_hint call(s) in these files, used for allocation sizes only)" % n)


# =====================================================================================================
# WRAPPER: container methods of a newtype / record answer with the same-named method of ONE inner collection
# =====================================================================================================
WRAP_FAMILY = {
    "len": {"len", "count"},
    "is_empty": {"is_empty"},
    "contains": {"contains", "contains_key", "binary_search", "any"},
    "contains_key": {"contains_key", "contains"},
    "get": {"get", "index", "binary_search"},
    "get_mut": {"get_mut", "index_mut"},
    "clear": {"clear"},
    "push": {"push", "push_back"},
    "insert": {"insert"},
    "retain": {"retain"},
    "iter": {"iter", "into_iter", "values", "keys"},
    "keys": {"keys", "iter"},
    "values": {"values", "iter", "index"},
    "first": {"first"},
    "last": {"last"},
}
WRAP_IGNORE = {"deref", "deref_mut", "as_ref", "as_mut", "borrow", "borrow_mut", "to_usize", "into", "from", "clone", "copied", "cloned", "as_slice", "as_u32", "is_ok", "is_some", "map", "collect", "ok", "unwrap_or"}
WRAP_ALL = set().union(*WRAP_FAMILY.values()) | {"capacity", "is_some", "is_none", "truncate", "pop", "remove", "drain", "first", "last"}


def wrapper_findings(prog, file_rx=r".*"):
    """list of dict(body, name, owner, verdict (True | False | None), msg, fields, line)"""
    pvn = Prov(prog, inline=False)
    out = []
    for b in prog.production():
        if b.kind != "AssocFn" or b.name not in WRAP_FAMILY or not b.impl_self or b.impl_trait or not re.search(file_rx, b.file or ""):
            continue
        if b.natural_loops() or len(b.reach) > 8 or b.nargs < 1:
            continue
        owner = (b.impl_self or {}).get("adt") or (b.impl_self or {}).get("s", "")
        calls = [(bi, t) for bi, t in b.calls() if t.callee.method not in WRAP_IGNORE and t.args]
        on_self = []
        for bi, t in calls:
            at = pvn.of_operand(b, t.args[0])
            if params_of(at, b.id) == {1} or (1 in params_of(at, b.id)):
                flds = sorted({a[2] for a in at if a[0] == "field" and a[1] == owner})
                on_self.append((bi, t, flds))
        if not on_self and not calls and b.name in ("retain", "insert", "push", "clear", "extend", "remove", "append"):
            out.append({"body": b, "name": b.name, "owner": owner, "verdict": False, "msg": "%s does not touch the inner collection at all (an empty body): the call is silently a no-op" % b.name, "fields": [], "line": b.line})
            continue
        if len(on_self) != 1:
            out.append({"body": b, "name": b.name, "owner": owner, "verdict": None, "msg": "not a single delegating call", "fields": [], "line": b.line})
            continue
        bi, t, flds = on_self[0]
        m = t.callee.method
        nots = [st for pos, st in b.stmts() if st.k == "assign" and st.rv["k"] == "un" and st.rv["op"] == "Not"]
        # `x == false` / `x != true` negate as well (`x == true` / `x != false` do not and are no comparison of two values)
        bool_cmps = [st for pos, st in b.stmts() if st.k == "assign" and bool_const_cmp(st.rv) is not None]
        nots += [st for st in bool_cmps if bool_const_cmp(st.rv)[1] == -1]
        ariths = [st for pos, st in b.stmts() if st.k == "assign" and st.rv["k"] == "bin" and st.rv["op"] not in ("Eq", "Ne", "Lt", "Le", "Gt", "Ge")]
        cmps = [st for pos, st in b.stmts() if st.k == "assign" and st.rv["k"] == "bin" and st.rv["op"] in ("Eq", "Ne", "Lt", "Le", "Gt", "Ge") and not any(st is x for x in bool_cmps)]
        rec = {"body": b, "name": b.name, "owner": owner, "fields": flds, "line": t.line, "method": m}
        if b.name == "is_empty" and m in ("len", "count") and len(cmps) == 1 and not nots:
            c = cmps[0]
            zero = (c.rv["r"].kind == "const" and c.rv["r"].int_value() == 0) or (c.rv["l"].kind == "const" and c.rv["l"].int_value() == 0)
            one = (c.rv["r"].kind == "const" and c.rv["r"].int_value() == 1)
            ok = (c.rv["op"] == "Eq" and zero) or (c.rv["op"] == "Lt" and one) or (c.rv["op"] == "Le" and zero and c.rv["r"].kind == "const")
            rec.update(verdict=bool(ok), msg="is_empty is `%s() %s %s`" % (m, c.rv["op"], "0" if zero else "1" if one else "?") + ("" if ok else ": not `len == 0`"))
        elif m in WRAP_FAMILY[b.name]:
            if nots and b.name in ("is_empty", "contains", "contains_key"):
                rec.update(verdict=False, msg="%s answers with the NEGATED %s() of its inner collection" % (b.name, m))
            elif ariths and b.name == "len":
                rec.update(verdict=None, msg="len adjusts the inner length arithmetically")
            elif cmps and b.name not in ("get", "contains"):
                rec.update(verdict=None, msg="compares the delegated result")
            else:
                rec.update(verdict=True, msg="%s delegates to %s() of `%s`" % (b.name, m, "/".join(flds) or "self"))
        elif m in WRAP_ALL:
            rec.update(verdict=False, msg="%s answers with %s() of `%s` (expected %s)" % (b.name, m, "/".join(flds) or "self", " / ".join(sorted(WRAP_FAMILY[b.name]))))
        else:
            rec.update(verdict=None, msg="delegates to %s(), not a collection method this rule knows" % m)
        out.append(rec)
    return out


def check_wrappers(ck, rule, prog, file_rx, floor=0):
    fs = wrapper_findings(prog, file_rx)
    n = 0
    by_owner = {}
    for r in sorted(fs, key=lambda r: r["body"].id):
        b = r["body"]
        if r["verdict"] is None:
            continue  # not a plain wrapper: other rules (or nothing) speak about it
        n += 1
        ck.ob(rule, "wrapper/%s" % b.short, r["verdict"], "%s: %s" % (b.short, r["msg"]), where=b.where(r["line"]))
        if r["verdict"] and r["fields"] and r["name"] in ("len", "is_empty", "iter", "contains", "get", "clear", "push"):
            by_owner.setdefault(r["owner"], {})[r["name"]] = tuple(r["fields"])
    for owner, d in sorted(by_owner.items()):
        if len(d) >= 2:
            same = len(set(d.values())) == 1
            ck.ob(rule, "wrapper-siblings/%s" % owner.rsplit("::", 1)[-1], same, "%s: %s act on %s" % (owner.rsplit("::", 1)[-1], ", ".join(sorted(d)), "the same inner collection `%s`" % "/".join(next(iter(d.values()))) if same else "DIFFERENT inner collections %s" % {k: "/".join(v) for k, v in sorted(d.items())}))
    if floor:
        ck.floor(rule, "container wrappers", n, floor, soft=True)
    return n


# =====================================================================================================
# IDENTITY: hand-written PartialEq / Hash of a crate type
# =====================================================================================================
def identity_findings(prog, file_rx=r".*"):
    """for every hand-written `PartialEq::eq` of a crate type: the fields compared on self and on other, and the fields its `Hash`
    feeds the hasher: list of dict(owner, eq_body, self_fields, other_fields, ncmp, negated, hash_body, hash_fields)"""
    from prov import field_names
    pv = Prov(prog)
    out = []
    for b in prog.production():
        if b.kind != "AssocFn" or b.impl_trait != "std::cmp::PartialEq" or b.name != "eq" or b.exp or not re.search(file_rx, b.file or ""):
            continue
        owner = (b.impl_self or {}).get("adt")
        if not owner or owner not in prog.adts or b.nargs != 2:
            continue
        if b.locals[2]["s"].replace("&", "").strip().split("<")[0].rsplit("::", 1)[-1] != owner.rsplit("::", 1)[-1]:
            continue  # PartialEq<OtherType>
        cmps = []
        for pos, st in b.stmts():
            if st.k == "assign" and st.rv["k"] == "bin" and st.rv["op"] in ("Eq", "Ne"):
                cmps.append((st.rv["op"], st.rv["l"], st.rv["r"], st.line))
        for bi, t in b.calls():
            if t.callee.trait == "std::cmp::PartialEq" and t.callee.method in ("eq", "ne") and len(t.args) == 2:
                cmps.append(("Eq" if t.callee.method == "eq" else "Ne", t.args[0], t.args[1], t.line))
        nots = len([1 for pos, st in b.stmts() if st.k == "assign" and st.rv["k"] == "un" and st.rv["op"] == "Not"])
        sides = []
        for op, l, r, line in cmps:
            al, ar = pv.of_operand(b, l), pv.of_operand(b, r)
            sides.append((op, params_of(al, b.id), frozenset(field_names(al, owner.rsplit("::", 1)[-1])), params_of(ar, b.id), frozenset(field_names(ar, owner.rsplit("::", 1)[-1])), line))
        hb = None
        for h in prog.production():
            if h.kind == "AssocFn" and h.impl_trait == "std::hash::Hash" and h.name == "hash" and not h.exp and (h.impl_self or {}).get("adt") == owner:
                hb = h
        hf = set()
        if hb is not None:
            for bi, t in hb.calls():
                if t.callee.method in ("hash", "write", "write_u32", "write_u64", "write_usize", "hash_slice") and t.args:
                    hf |= field_names(pv.of_operand(hb, t.args[0]), owner.rsplit("::", 1)[-1])
        out.append({"owner": owner, "eq": b, "sides": sides, "nots": nots, "hash": hb, "hash_fields": hf})
    return out


def check_identity_impls(ck, rule, prog, file_rx=r".*", floor=0):
    """equality of a record type compares the SAME field(s) of both values, un-negated, and the Hash impl feeds only fields that
    equality looks at (equal values must hash alike)"""
    n = 0
    for r in identity_findings(prog, file_rx):
        b = r["eq"]
        nm = r["owner"].rsplit("::", 1)[-1]
        if not r["sides"]:
            ck.undecided(rule, "identity/%s/eq" % nm, "no comparison recognised in %s" % b.short, where=b.where())
            continue
        n += 1
        bad = []
        keys = set()
        for op, pl, fl, pr, fr, line in r["sides"]:
            if not ((pl == {1} and pr == {2}) or (pl == {2} and pr == {1})):
                bad.append("compares %s with %s (line %s)" % (sorted(pl), sorted(pr), line))
            elif fl != fr:
                bad.append("compares self.%s with other.%s (line %s)" % ("/".join(sorted(fl)) or "?", "/".join(sorted(fr)) or "?", line))
            elif (op == "Ne") != (r["nots"] % 2 == 1) and len(r["sides"]) == 1:
                bad.append("answers the negation of the comparison (line %s)" % line)
            keys |= fl
        adt = prog.adts.get(r["owner"]) or {}
        has_id = any(f.get("name") == "id" for v in adt.get("variants", []) for f in v.get("fields", []))
        if not bad and has_id and "id" not in keys:
            bad.append("does not compare the `id` of the two values (it compares `%s`): two different records can be equal" % "/".join(sorted(keys)))
        ck.ob(rule, "identity/%s/eq" % nm, not bad, "%s::eq %s" % (nm, ("compares `%s` of both values" % "/".join(sorted(keys))) if not bad else "; ".join(bad)), where=b.where())
        if r["hash"] is not None:
            extra = r["hash_fields"] - keys
            if not r["hash_fields"]:
                ck.undecided(rule, "identity/%s/hash" % nm, "hashed fields not recognised in %s" % r["hash"].short, where=r["hash"].where())
            else:
                ck.ob(rule, "identity/%s/hash" % nm, not extra, "%s hashes `%s`; equality looks at `%s`%s" % (nm, "/".join(sorted(r["hash_fields"])), "/".join(sorted(keys)), "" if not extra else ": values that are equal can hash differently (lookups in hashed collections miss)"), where=r["hash"].where())
    if floor:
        ck.floor(rule, "hand-written equality impls", n, floor, soft=True)
    return n


# =====================================================================================================
# MAPPING ITERATORS: one inner item in, one item out
# =====================================================================================================
def mapping_iterator_findings(prog, file_rx=r".*"):
    """hand-written loop-free `Iterator::next` bodies that take ONE item from an inner iterator and turn it into their own item:
    every `None` they return must come from the inner iterator's exhaustion.  A `None` produced after an item was taken (a failed
    lookup turned into `None`, a `?` on something else than the inner `next()`) ends the iteration early and silently.
    list of dict(body, verdict, msg, line)"""
    pvn = Prov(prog, inline=False)
    out = []
    for b in prog.production():
        if b.kind != "AssocFn" or b.impl_trait not in ("std::iter::Iterator", "std::iter::DoubleEndedIterator") or b.name not in ("next", "next_back") or b.exp:
            continue
        if not re.search(file_rx, b.file or "") or b.natural_loops():
            continue
        inner = [(bi, t) for bi, t in b.calls() if t.callee.method in ("next", "next_back") and t.args and 1 in params_of(pvn.of_operand(b, t.args[0]), b.id)]
        if len(inner) != 1:
            continue
        ibi, it = inner[0]
        if it.dest is None or not it.dest.is_local():
            continue
        # the branch on the inner result: discriminant switch, or Try::branch
        none_edges = []
        for sb in sorted(b.reach):
            x = b.blocks[sb].term
            if x.k != "switch" or x.discr.place is None or not x.discr.place.is_local():
                continue
            # the switched value must BE the inner result (copies, its discriminant, `?`'s branch()), not a value computed from the item
            cur, through_branch, is_inner, hops = x.discr.place.local, False, False, 0
            while cur is not None and hops < 12:
                hops += 1
                ds = pvn.defs(b).get(cur, [])
                if len(ds) != 1:
                    break
                kind, pos, d = ds[0]
                if kind == "call":
                    if pos[0] == ibi:
                        is_inner = True
                        break
                    if d.callee.method == "branch" and d.args and d.args[0].place is not None and d.args[0].place.is_local():
                        through_branch = True
                        cur = d.args[0].place.local
                        continue
                    break
                rv = d.rv
                if rv["k"] == "discr" and rv["place"].is_local():
                    cur = rv["place"].local
                elif rv["k"] == "use" and rv["op"].place is not None and rv["op"].place.is_local():
                    cur = rv["op"].place.local
                else:
                    break
            if is_inner:
                # discriminant of Option: 0 = None; of ControlFlow (after branch): 1 = Break
                want = 1 if through_branch else 0
                tg = dict(x.targets).get(want)
                if tg is None and len(x.targets) == 1:
                    tg = x.otherwise
                if tg is not None:
                    none_edges.append((sb, tg))
        sources = []
        for pos, st in b.stmts():
            if st.k == "assign" and st.place.local == 0 and st.place.is_local() and st.rv["k"] == "agg" and st.rv.get("variant") == "None":
                sources.append((pos[0], st.line, "None"))
        for bi, t in b.calls():
            if t.callee.method == "from_residual" and t.dest is not None and t.dest.is_local() and t.dest.local == 0:
                sources.append((bi, t.line, "`?`"))
            if t.dest is not None and t.dest.is_local() and t.dest.local == 0 and t.callee.method in ("ok", "and_then", "filter", "then", "then_some", "get", "copied", "cloned", "map") and bi != ibi:
                # the result is built by a combinator: `map` of the inner result is one-to-one, the others can turn Some into None
                recv_inner = t.args and any(a[0] == "call" and a[3] == b.id and a[4] == ibi for a in pvn.of_operand(b, t.args[0]))
                if t.callee.method in ("map", "copied", "cloned") and recv_inner:
                    continue
                sources.append((bi, t.line, "%s()" % t.callee.method))
        if not none_edges and not sources:
            out.append({"body": b, "verdict": True, "msg": "maps the inner item one-to-one (combinator form)", "line": it.line})
            continue
        loose = [(bb, line, what) for bb, line, what in sources if not any(b.edge_dominates(e, bb) or bb == e[1] for e in none_edges)]
        if loose:
            out.append({"body": b, "verdict": False, "msg": "returns %s at line %s after an item was taken from the inner iterator: the iteration ends early and the remaining items are never produced" % (loose[0][2], loose[0][1]), "line": loose[0][1]})
        else:
            out.append({"body": b, "verdict": True, "msg": "returns None only when the inner iterator is exhausted", "line": it.line})
    return out


def check_mapping_iterators(ck, rule, prog, file_rx, floor=0):
    fs = mapping_iterator_findings(prog, file_rx)
    for r in sorted(fs, key=lambda r: r["body"].id):
        ck.ob(rule, "one-to-one/%s" % r["body"].id, r["verdict"], "%s %s" % (r["body"].short, r["msg"]), where=r["body"].where(r["line"]))
    if floor:
        ck.floor(rule, "mapping iterators", len(fs), floor, soft=True)
    return len(fs)


# =====================================================================================================
# ERR: a failure of a crate function is not turned into success
# =====================================================================================================
ERR_SWALLOW = {"ok", "unwrap_or_default", "unwrap_or", "unwrap_or_else", "is_ok", "is_err", "or", "or_else", "map_or", "map_or_else", "err", "iter", "into_iter"}
ERR_ASSERT = {"unwrap", "expect", "unwrap_unchecked", "expect_err"}
ERR_FORWARD = {"branch", "map_err", "and_then", "map", "inspect_err", "inspect"}


def error_sites(prog, file_rx=r".*"):
    """call sites of crate functions that return `Result<_, HpoError>`, with what happens to the result:
    'propagate' (`?`, returned, matched, mapped on), 'assert' (unwrap / expect: a panic, not a silent success),
    'swallow' (`.ok()`, `unwrap_or*`, only `is_ok()`...), 'unused'.  list of dict(body, callee, kind, uses, line)"""
    out = []
    for b in prog.production():
        if b.kind not in ("Fn", "AssocFn", "Closure") or not re.search(file_rx, b.file or ""):
            continue
        for bi, t in b.calls():
            tg = prog.bodies.get(t.callee.res) if t.callee.res else None
            if tg is None or t.dest is None or not t.dest.is_local():
                continue
            rt = tg.locals[0]["s"]
            if "Result<" not in rt or "HpoError" not in rt:
                continue
            if not re.match(r"^(std::result::|core::result::)?Result<", rt):
                continue  # `Option<Result<..>>` (an iterator's item): `unwrap_or(Err(..))` on the Option supplies an error, it does not drop one
            d = t.dest.local
            uses = []
            work, seen = [d], set()
            while work:
                l = work.pop()
                if l in seen:
                    continue
                seen.add(l)
                for pos, st in b.stmts():
                    if st.k != "assign":
                        continue
                    if st.rv["k"] in ("use", "ref"):
                        src = st.rv["op"].place if st.rv["k"] == "use" else st.rv["place"]
                        if src is not None and src.local == l:
                            if st.place.is_local():
                                work.append(st.place.local)
                                if st.place.local == 0:
                                    uses.append("return")
                    elif st.rv["k"] == "discr" and st.rv["place"].local == l:
                        uses.append("match")
                for bj, u in b.calls():
                    if any(a.place is not None and a.place.local == l for a in u.args):
                        uses.append(u.callee.method)
                        if u.callee.method in ERR_FORWARD and u.callee.method != "branch" and u.dest is not None and u.dest.is_local():
                            work.append(u.dest.local)
            if d == 0:
                uses.append("return")
            us = set(uses)
            kind = "swallow" if us & ERR_SWALLOW else "assert" if us & ERR_ASSERT else "propagate" if us & {"branch", "return", "match"} else "unused" if not us else "other"
            if kind == "swallow" and (us & ERR_SWALLOW) == {"ok"}:
                # `x: f(..).ok()` KEPT in a field of a crate struct (a cached conversion whose failure is re-derived where the value is needed) is
                # not a discarded error - whether the failure resurfaces later is not followed
                for bj, u in b.calls():
                    if u.callee.method == "ok" and any(a.place is not None and a.place.local in seen for a in u.args) and u.dest is not None and u.dest.is_local():
                        dl = u.dest.local
                        if any(st.k == "assign" and st.rv["k"] == "agg" and st.rv.get("agg") == "adt" and st.rv.get("adt") in prog.adts and any(o.place is not None and o.place.local == dl for o in st.rv["ops"]) for _, st in b.stmts()):
                            kind = "other"
                            us = us | {"stored in a struct field"}
            out.append({"body": b, "callee": tg, "kind": kind, "uses": sorted(us), "line": t.line})
    return out


def check_error_discipline(ck, rule, prog, file_rx, allowed=(), floor=0):
    """allowed: iterable of (caller short regex, callee short regex, reason) for sites where turning the error into `None` / a default is
    the documented behaviour"""
    n = 0
    cnt = {}
    for r in error_sites(prog, file_rx):
        b, tg = r["body"], r["callee"]
        owner = prog.bodies[b.root].short if b.kind == "Closure" and b.root in prog.bodies else b.short
        key = "%s<-%s" % (owner, tg.short)
        i = cnt.get(key, 0)
        cnt[key] = i + 1
        n += 1
        if r["kind"] in ("propagate", "assert"):
            continue
        ok_reason = next((why for crx, trx, why in allowed if re.search(crx, owner) and re.search(trx, tg.short)), None)
        if ok_reason:
            ck.ob(rule, "error/%s/%d" % (key, i), True, "%s turns the error of %s into a plain value (%s): %s" % (owner, tg.short, ", ".join(r["uses"]), ok_reason), where=b.where(r["line"]))
        elif r["kind"] == "swallow":
            ck.ob(rule, "error/%s/%d" % (key, i), False, "%s discards the error of %s with `%s`: a failure is reported as success / replaced by a default" % (owner, tg.short, [u for u in r["uses"] if u in ERR_SWALLOW][0]), where=b.where(r["line"]))
        elif r["kind"] == "unused":
            ck.ob(rule, "error/%s/%d" % (key, i), False, "%s ignores the Result of %s" % (owner, tg.short), where=b.where(r["line"]))
        else:
            ck.undecided(rule, "error/%s/%d" % (key, i), "%s consumes the Result of %s through %s: not classified" % (owner, tg.short, r["uses"]), where=b.where(r["line"]))
    ck.ob(rule, "error/sites", True, "%d call site(s) of fallible crate functions examined in these files: each propagates (`?`, return, match), asserts (unwrap / expect) or is a listed exception" % n)
    if floor:
        ck.floor(rule, "call sites of fallible crate functions", n, floor, soft=True)
    return n


# =====================================================================================================
# KSIB: the gene / OMIM / ORPHA variants of one operation agree
# =====================================================================================================
KIND_TOKENS = [("orpha_disease", "K"), ("omim_disease", "K"), ("OrphaDisease", "K"), ("OmimDisease", "K"), ("orpha", "K"), ("omim", "K"), ("Orpha", "K"), ("Omim", "K"),
               ("gene", "K"), ("Gene", "K"), ("disease", "K"), ("Disease", "K")]
# groups whose members differ by design on today's tree (a delegating impl next to a full one, gene files have a header, ...): confirmed by
# reading, not compared
KSIB_EXEMPT = {
    "<annotations::K::K as std::convert::TryFrom>::try_from": "the disease impls delegate to Disease::from_bytes, the gene impl decodes in place",
    "annotations::K::K::as_bytes": "Gene::as_bytes truncates the name itself, the diseases share a default method",
    "ontology::comparison::AnnotationDelta::K": "`disease` is generic over the Disease trait (calls not resolved per kind)",
    "parser::K_to_hpo::parse": "the gene files carry a header line and have two column layouts; phenotype.hpoa is parsed row by row into an enum",
    "similarity::defaults::Mutation::K_similarity": "disease_similarity is the shared helper of the two disease variants",
}


def _abs_kind(s):
    for a, b in KIND_TOKENS:
        s = s.replace(a, b)
    return re.sub(r"Ks\b", "K", s)


def kind_sibling_groups(prog):
    groups = {}
    for b in prog.production():
        if b.kind not in ("Fn", "AssocFn"):
            continue
        raw = re.sub(r"<[^<>]*>", "", b.id)
        key = _abs_kind(raw)
        if key != raw:
            groups.setdefault(key, []).append(b)
    return {k: v for k, v in groups.items() if len(v) >= 3 and k not in KSIB_EXEMPT}


def check_kind_siblings(ck, rule, prog, file_rx=r".*", floor=0):
    """in a group of three (or more) functions that are the gene / OMIM / ORPHA variants of one operation, none may do something the
    others do not: an extra filtering / truncating adaptor, an extra error-swallowing or text-changing call, a call of a crate function
    that no sibling calls.  (What a variant LACKS is not judged: one sibling written as a loop, the others as a chain, is fine.)"""
    # steps that change WHICH elements / WHAT text / WHETHER an error is seen (collection housekeeping such as pop / extend / retain of a
    # work list is not on the list: an iterative rewrite of one recursive sibling uses them)
    sus = {"filter", "filter_map", "find", "find_map", "flat_map", "position", "skip_while", "take_while", "map_while", "skip", "take", "step_by", "nth",
           "ok", "unwrap_or_default", "unwrap_or", "unwrap_or_else", "is_ok", "is_err", "map_or", "map_or_else", "err",
           "trim", "trim_start", "trim_end", "trim_matches", "to_lowercase", "to_uppercase", "to_ascii_lowercase", "to_ascii_uppercase", "replace", "replacen", "strip_prefix", "strip_suffix",
           "eq_ignore_ascii_case", "split_whitespace"}

    def substantial(tg):
        """a crate function that does work of its own (loops, calls further crate functions, or is not tiny): accessors and predicates
        (`is_empty`, `parents`, `id`) are not what distinguishes one variant from another"""
        if tg.natural_loops() or len(tg.reach) > 6:
            return True
        return any(t.callee.res in prog.bodies and prog.bodies[t.callee.res].kind != "Closure" for fb in prog.family(tg) for _, t in fb.calls())

    impls = {}
    for x in prog.production():
        if x.kind == "AssocFn" and x.impl_trait and x.name:
            impls.setdefault(x.name, []).append(x)
    PLAIN = ("new", "default", "from", "into", "clone", "try_new", "with_capacity", "as_u32", "id", "name", "iter", "into_iter", "next")

    def is_private_helper(x):
        return x.kind in ("Fn", "AssocFn") and not (x.exported or x.reachable or x.impl_trait)

    def feats(b, depth=2):
        """(crate functions called, suspicious std steps, private helpers looked into).  With depth > 0 a private helper is looked INTO (its own
        calls count as the variant's); depth 0 lists the helper by name"""
        cc, st, hs = set(), set(), set()
        for fb in prog.family(b):
            for bi, t in fb.calls():
                r = t.callee.res
                if r and r in prog.bodies and prog.bodies[r].kind != "Closure":
                    tg = prog.bodies[r]
                    nm = _abs_kind(tg.name or "?")
                    if nm in PLAIN:
                        continue
                    if depth and is_private_helper(tg) and tg.id != b.id:
                        c2, s2, h2 = feats(tg, depth - 1)
                        cc |= c2
                        st |= s2
                        hs |= h2 | {nm}
                        continue
                    if substantial(tg):
                        cc.add(nm)
                elif r is None and t.callee.trait and t.callee.method in impls and t.callee.method not in PLAIN:
                    # a call through a crate trait on a type parameter (`D::add_term` in a generic helper): the method's impls decide
                    if any(substantial(x) for x in impls[t.callee.method] if (x.impl_trait or "") == t.callee.trait or (x.impl_trait or "").endswith(t.callee.trait.rsplit("::", 1)[-1])):
                        cc.add(_abs_kind(t.callee.method))
                elif t.callee.method in ("unwrap_or_default", "unwrap_or", "unwrap_or_else", "map_or", "map_or_else") and "option::Option" in (t.callee.res or t.callee.name or ""):
                    pass  # a default for an ABSENT value (`map.remove(k).unwrap_or_else(new)`) swallows no error; on a Result it does
                elif t.callee.method == "insert_entry" or (t.callee.method == "insert" and "OccupiedEntry" in (t.callee.name or t.callee.def_args or "")):
                    # `map.entry(k).insert_entry(v)` / `occupied.insert(v)` REPLACE what is stored under the key; the siblings' `or_insert*` / vacant-only
                    # inserts keep it
                    st.add("an overwriting entry store (insert_entry / OccupiedEntry::insert)")
                elif t.callee.method in sus:
                    # selection by content is one class however it is spelled (filter / filter_map(.. then_some) / find ...)
                    st.add("a selecting adaptor (filter / filter_map / find ..)" if t.callee.method in ("filter", "filter_map", "find", "find_map", "flat_map", "retain", "position") else t.callee.method)
        return cc, st, hs
    n = 0
    for key, bs in sorted(kind_sibling_groups(prog).items()):
        if not any(re.search(file_rx, b.file or "") for b in bs):
            continue
        # compared as written (helpers by name); what then stands out is excused when looking INTO the private helpers of either side
        # makes it disappear: one variant written through a shared helper and a sibling written out in full are the same operation
        F = {b.id: feats(b, 0) for b in bs}
        FX = {b.id: feats(b, 2) for b in bs}
        helper_by_name = {}
        for b in bs:
            for fb in prog.family(b):
                for _, t in fb.calls():
                    tg = prog.bodies.get(t.callee.res or "")
                    if tg is not None and tg.kind != "Closure" and is_private_helper(tg):
                        helper_by_name.setdefault(_abs_kind(tg.name or "?"), tg)
                    elif tg is not None and tg.kind in ("Fn", "AssocFn") and not tg.impl_trait and tg.id != b.id and (tg.file or "") == (b.file or "") and tg.impl_self == b.impl_self:
                        # a PUBLIC method of the same impl the variant hands its work to (`annotate_gene` -> the new bulk `annotate_gene_terms`):
                        # looked into in the same way - what it does must be what the siblings do
                        helper_by_name.setdefault(_abs_kind(tg.name or "?"), tg)
        n += 1
        odd = []
        for b in bs:
            others = [o.id for o in bs if o.id != b.id]
            o_cc = set().union(*[F[o][0] | FX[o][0] for o in others])
            o_st_plain = set().union(*[F[o][1] for o in others])
            o_st = set().union(*[F[o][1] | FX[o][1] for o in others])
            ecc = set()
            for x in F[b.id][0] - o_cc:
                hb_ = helper_by_name.get(x)
                if hb_ is not None:
                    c2, s2, _ = feats(hb_, 2)
                    if c2 <= o_cc and s2 <= o_st:
                        continue
                ecc.add(x)
            est = F[b.id][1] - o_st
            if ecc or est:
                odd.append((b, sorted(ecc), sorted(est)))
        label = key.rsplit("::", 1)[-1]
        if not odd:
            ck.ob(rule, "kind-siblings/%s" % key, True, "%s: the %d variants call the same crate functions and use no filtering / error-swallowing / text-changing step that a sibling lacks" % (label, len(bs)))
        elif len(odd) == 1:
            b, ecc, est = odd[0]
            ck.ob(rule, "kind-siblings/%s" % key, False, "%s differs from its %d sibling(s): it alone %s" % (b.short, len(bs) - 1, "; ".join(
                (["uses `%s`" % ", ".join(est)] if est else []) + (["calls %s" % ", ".join(ecc)] if ecc else []))), where=b.where())
        else:
            ck.undecided(rule, "kind-siblings/%s" % key, "%s: more than one variant has steps of its own (%s)" % (label, "; ".join("%s: %s" % (b.short, e1 + e2) for b, e1, e2 in odd)))
    if floor:
        ck.floor(rule, "groups of kind variants", n, floor, soft=True)
    return n


# =====================================================================================================
# NAMES: a table that maps text to the variant of an enum
# =====================================================================================================
def name_table(body, enum_rx, pv=None):
    """`match text { "a" | "b" => Enum::A, ... }`: {literal: set of variant names constructed on its arm}.  The arm is what is reachable
    from the literal's positive edge without passing another literal test (or-patterns share an arm block)."""
    arms = string_key_arms(body, pv)
    test_blocks = {a["call_bb"] for a in arms.values()}
    out = {}
    for lit, a in arms.items():
        seen, work, vs = set(), [a["edge"][1]], set()
        while work:
            x = work.pop()
            if x in seen or x in test_blocks:
                continue
            seen.add(x)
            for st in body.blocks[x].stmts:
                if st.k == "assign" and st.rv["k"] == "agg" and st.rv.get("agg") == "adt" and re.search(enum_rx, st.rv.get("adt", "")):
                    vs.add(st.rv["variant"])
            if vs and any(st.k == "assign" and st.rv["k"] == "agg" and re.search(enum_rx, st.rv.get("adt", "")) for st in body.blocks[x].stmts):
                continue
            work.extend(body.succ[x])
        out[lit] = vs
    return out


def check_name_table(ck, rule, label, body, enum_rx, pv=None, floor=0):
    """each accepted name is the lower-cased name of the variant it selects, a prefix of it, its initials, or that plus a digit suffix
    ("dist" -> Distance, "ic" -> InformationCoefficient, "jc2" -> Jc): a swapped arm maps a name to a variant it does not name"""
    tb = name_table(body, enum_rx, pv)
    n = 0
    for lit, vs in sorted(tb.items()):
        if not vs:
            ck.undecided(rule, "%s/%s" % (label, lit), "what the name %r selects is not recognised" % lit, where=body.where())
            continue
        n += 1
        l = lit.lower()
        def names(v):
            low = v.lower()
            initials = "".join(c for c in v if c.isupper()).lower()
            base = l.rstrip("0123456789")
            return l == low or (len(l) >= 2 and low.startswith(l)) or l == initials or base == low or base == initials
        ok = len(vs) == 1 and names(next(iter(vs)))
        ck.ob(rule, "%s/%s" % (label, lit), ok, "the name %r selects %s%s" % (lit, "/".join(sorted(vs)), "" if ok else ": not the variant that name stands for"), where=body.where())
    if floor:
        ck.floor(rule, "%s names" % label, n, floor)
    return n


# =====================================================================================================
# ZIPLEN: `a.zip(b)` ends with the shorter side - lengths as affine expressions over collection lengths
# =====================================================================================================
class LenEval:
    """Affine lengths (dict: symbol -> coefficient, () = constant) of integer operands and of collections / slices / ranges / iterators, over
    symbols ("len", <field path from `self`>).  Follows single definitions, `len()`, slicing by constant-offset ranges, the transparent
    adaptors (iter / into_iter / deref / as_slice) and loop-free crate accessors that are handed `self` unchanged.  None = not computable."""
    TRANSPARENT = {"iter", "into_iter", "deref", "as_slice", "as_ref", "borrow", "by_ref", "as_mut_slice", "iter_mut", "deref_mut", "copied", "cloned", "rev", "enumerate", "map", "inspect"}

    def __init__(self, prog):
        self.prog = prog

    @staticmethod
    def _comb(a, b, sign):
        if a is None or b is None:
            return None
        out = dict(a)
        for k, v in b.items():
            out[k] = out.get(k, 0) + sign * v
            if out[k] == 0:
                del out[k]
        return out

    def _defs(self, body):
        d = getattr(body, "_lendefs", None)
        if d is None:
            d = {}
            for pos, st in body.stmts():
                if st.k == "assign" and st.place.is_local():
                    d.setdefault(st.place.local, []).append(("assign", st))
            for bi, t in body.calls():
                if t.dest is not None and t.dest.is_local():
                    d.setdefault(t.dest.local, []).append(("call", t))
            body._lendefs = d
        return d

    def _self_passed(self, body, op):
        """the operand is `self` of `body` handed on unchanged (`&*self`, `self`)"""
        if op.place is None:
            return False
        l, seen = op.place.local, set()
        if [e for e in op.place.fields() if e != "*"]:
            return False
        while l not in seen:
            seen.add(l)
            if l == 1:
                return True
            ds = self._defs(body).get(l, [])
            if len(ds) != 1 or ds[0][0] != "assign":
                return False
            rv = ds[0][1].rv
            if rv["k"] == "ref" and not [e for e in rv["place"].fields() if e != "*"]:
                l = rv["place"].local
            elif rv["k"] == "use" and rv["op"].place is not None and not [e for e in rv["op"].place.fields() if e != "*"]:
                l = rv["op"].place.local
            else:
                return False
        return False

    def _ret(self, callee):
        """operand-like view of what a loop-free crate function returns: ('op', operand) | ('call', term) | None"""
        outs = []
        for pos, st in callee.stmts():
            if st.k == "assign" and st.place.is_local() and st.place.local == 0:
                outs.append(("assign", st))
        for bi, t in callee.calls():
            if t.dest is not None and t.dest.is_local() and t.dest.local == 0:
                outs.append(("call", t))
        return outs[0] if len(outs) == 1 else None

    def usize(self, body, op, depth=0):
        if depth > 25:
            return None
        if op.kind == "const":
            v = op.int_value()
            return ({(): v} if v else {}) if v is not None else None
        if op.place is None:
            return None
        es = [e for e in op.place.fields() if e != "*"]
        ds = self._defs(body).get(op.place.local, [])
        if len(ds) != 1:
            return None
        kind, d = ds[0]
        if es:
            # `.0` of a checked add / sub
            if len(es) == 1 and es[0][0] == "f" and es[0][1] == "0" and kind == "assign" and d.rv["k"] == "bin" and d.rv["op"].endswith("WithOverflow"):
                return self._bin(body, d.rv, depth)
            return None
        if kind == "assign":
            return self._rv_usize(body, d.rv, depth)
        return self._call_usize(body, d, depth)

    def _bin(self, body, rv, depth):
        o = rv["op"].replace("WithOverflow", "").replace("Unchecked", "")
        if o in ("Add", "Sub"):
            return self._comb(self.usize(body, rv["l"], depth + 1), self.usize(body, rv["r"], depth + 1), 1 if o == "Add" else -1)
        return None

    def _rv_usize(self, body, rv, depth):
        if rv["k"] in ("use", "cast"):
            return self.usize(body, rv["op"], depth + 1)
        if rv["k"] == "bin":
            return self._bin(body, rv, depth)
        if rv["k"] == "un" and rv["op"] == "PtrMetadata":
            return self.length(body, rv["o"], depth + 1)
        return None

    def _call_usize(self, body, t, depth):
        c = t.callee
        if c.method == "len" and len(t.args) == 1 and not (c.res and c.res in self.prog.bodies):
            return self.length(body, t.args[0], depth + 1)
        g = self.prog.bodies.get(c.res) if c.res else None
        if g is not None and g.kind in ("Fn", "AssocFn") and not g.natural_loops() and len(t.args) == 1 and g.nargs == 1 and self._self_passed(body, t.args[0]) and body.nargs >= 1:
            r = self._ret(g)
            if r is not None:
                return self._rv_usize(g, r[1].rv, depth + 1) if r[0] == "assign" else self._call_usize(g, r[1], depth + 1)
        return None

    def length(self, body, op, depth=0):
        """number of elements of the collection / slice / range / iterator the operand is (or refers to)"""
        if depth > 25 or op.place is None:
            return None
        es = [e for e in op.place.fields() if e != "*"]
        if op.place.local == 1 and es and all(e[0] == "f" for e in es):
            return {("len", tuple(e[1] for e in es)): 1}
        if es:
            return None
        ds = self._defs(body).get(op.place.local, [])
        if len(ds) != 1:
            return None
        kind, d = ds[0]
        if kind == "assign":
            rv = d.rv
            if rv["k"] in ("use", "cast"):
                return self.length(body, rv["op"], depth + 1)
            if rv["k"] in ("ref", "rawptr"):
                pes = [e for e in rv["place"].fields() if e != "*"]
                if rv["place"].local == 1 and pes and all(e[0] == "f" for e in pes):
                    return {("len", tuple(e[1] for e in pes)): 1}
                if not pes:
                    class _O:  # operand view of a bare local
                        pass
                    o = _O()
                    o.kind, o.place, o.const = "copy", type(rv["place"])({"l": rv["place"].local, "p": []}), None
                    return self.length(body, o, depth + 1)
                return None
            if rv["k"] == "agg" and re.search(r"::Range(Inclusive)?$", rv.get("adt", "")) and len(rv["ops"]) == 2:
                n = self._comb(self.usize(body, rv["ops"][1], depth + 1), self.usize(body, rv["ops"][0], depth + 1), -1)
                return self._comb(n, {(): 1}, 1) if n is not None and rv["adt"].endswith("Inclusive") else n
            return None
        t = d
        c = t.callee
        if c.trait == "std::ops::Index" and len(t.args) == 2 and "Range" in (c.def_args or ""):
            base = self.length(body, t.args[0], depth + 1)
            rds = self._defs(body).get(t.args[1].place.local, []) if t.args[1].place is not None else []
            if len(rds) == 1 and rds[0][0] == "assign" and rds[0][1].rv["k"] == "agg":
                rv = rds[0][1].rv
                adt = rv.get("adt", "")
                if adt.endswith("::RangeFrom") and len(rv["ops"]) == 1:
                    return self._comb(base, self.usize(body, rv["ops"][0], depth + 1), -1)
                if adt.endswith("::Range") and len(rv["ops"]) == 2:
                    return self._comb(self.usize(body, rv["ops"][1], depth + 1), self.usize(body, rv["ops"][0], depth + 1), -1)
                if adt.endswith("::RangeTo") and len(rv["ops"]) == 1:
                    return self.usize(body, rv["ops"][0], depth + 1)
            return None
        g = self.prog.bodies.get(c.res) if c.res else None
        if g is not None and g.kind in ("Fn", "AssocFn"):
            if not g.natural_loops() and len(t.args) == 1 and g.nargs == 1 and self._self_passed(body, t.args[0]):
                r = self._ret(g)
                if r is not None:
                    if r[0] == "call":
                        class _T:
                            pass
                        # the callee's result is itself a call result: evaluate that call inside the callee
                        return self._call_len(g, r[1], depth + 1)
                    rv = r[1].rv
                    if rv["k"] in ("use", "cast"):
                        return self.length(g, rv["op"], depth + 1)
                    if rv["k"] == "ref":
                        pes = [e for e in rv["place"].fields() if e != "*"]
                        if rv["place"].local == 1 and pes and all(e[0] == "f" for e in pes):
                            return {("len", tuple(e[1] for e in pes)): 1}
                        if not pes:
                            class _O2:
                                pass
                            o2 = _O2()
                            o2.kind, o2.const, o2.place = "copy", None, type(rv["place"])({"l": rv["place"].local, "p": []})
                            return self.length(g, o2, depth + 1)
            return None
        if c.method in self.TRANSPARENT and t.args:
            return self.length(body, t.args[0], depth + 1)
        return None

    def _call_len(self, body, t, depth):
        """length of the value a call returns (a call terminator of `body`)"""
        class _O:
            pass
        if t.dest is None or not t.dest.is_local():
            return None
        # reuse `length` on the destination local: it has this call as its single definition
        o = _O()
        o.kind, o.const = "copy", None
        o.place = t.dest
        return self.length(body, o, depth)


def fmt_len(a):
    if a is None:
        return "?"
    parts = []
    for k in sorted(a, key=str):
        if k == ():
            continue
        nm = "len(self.%s)" % ".".join(k[1])
        parts.append(nm if a[k] == 1 else "%d*%s" % (a[k], nm))
    c = a.get((), 0)
    s = " + ".join(parts) if parts else ""
    if c or not s:
        s = (s + (" + " if c > 0 and s else " - " if c < 0 and s else "") + str(abs(c) if s else c))
    return s


def check_zip_lengths(ck, rule, prog, bodies, what):
    """`a.zip(b)` silently ends with the shorter side.  Where both lengths are affine in the same collection lengths and differ by a constant,
    elements of the longer side are dropped: a violation when the zip drives a loop / fold that is meant to visit every element."""
    le = LenEval(prog)
    n = 0
    for b in bodies:
        for bi, t in b.calls():
            if t.callee.method != "zip" or t.callee.trait != "std::iter::Iterator" or len(t.args) != 2:
                continue
            la, lb = le.length(b, t.args[0]), le.length(b, t.args[1])
            if la is None or lb is None:
                continue
            n += 1
            diff = LenEval._comb(la, lb, -1)
            key = "zip/%s/%d" % (b.short, len([1 for b2, t2 in b.calls() if t2.callee.method == "zip" and b2 < bi]))
            if diff == {}:
                ck.ob(rule, key, True, "%s zips two sides of equal length (%s)" % (b.short, fmt_len(la)), where=b.where(t.line))
            elif set(diff) == {()}:
                ck.ob(rule, key, False, "%s zips %s elements with %s elements: the zip ends with the shorter side, %d element(s) of %s are never visited" % (b.short, fmt_len(la), fmt_len(lb), abs(diff[()]), what), where=b.where(t.line))
            # a difference that depends on a collection length is not decided here
    return n


# =====================================================================================================
# PARALLEL: two vectors of one struct that are filled side by side must be edited at the same position
# =====================================================================================================
def check_parallel_vectors(ck, rule, prog, bodies):
    """A method that adds one element to TWO `Vec` fields of the same struct keeps them element-aligned only if both additions go to the same
    position: `a.insert(idx, x); b.push(y)` (or `remove(i)` next to `swap_remove(i)` / `pop()`) shifts one of them against the other.  Structural:
    the pair of calls, their receivers (two different fields of `self`) and the kind of positional edit."""
    from prov import Prov
    pvn = Prov(prog, inline=False)
    ADD = {"insert": "at", "push": "end"}
    DEL = {"remove": "shift", "swap_remove": "swap", "pop": "end", "truncate": "end"}
    n = 0
    for b in bodies:
        if b.kind not in ("Fn", "AssocFn") or b.nargs < 1:
            continue
        adds, dels = [], []
        for bi, t in b.calls():
            m = t.callee.method
            if (m not in ADD and m not in DEL) or not re.search(r"^std::vec::Vec::<", t.callee.def_args or "") or not t.args or t.args[0].place is None:
                continue
            fl = set()
            l = t.args[0].place.local
            for k_, p_, d_ in pvn.defs(b).get(l, []):
                if k_ == "assign" and d_.rv["k"] == "ref" and d_.rv["place"].local == 1:
                    es = [e for e in d_.rv["place"].fields() if e != "*"]
                    if len(es) == 1 and es[0][0] == "f":
                        fl.add((es[0][1], es[0][2]))
            if len(fl) != 1:
                continue
            (fld, adt), = fl
            # insert(len) is a push
            kind = ADD.get(m) or DEL.get(m)
            (adds if m in ADD else dels).append((fld, adt, kind, m, t.line, bi))
        for group, what in ((adds, "adds to"), (dels, "removes from")):
            by_adt = {}
            for x in group:
                by_adt.setdefault(x[1], []).append(x)
            for adt, xs in by_adt.items():
                flds = {x[0] for x in xs}
                if len(flds) < 2 or len(xs) != len(flds):
                    continue  # one field only, or several edits of one field: not the side-by-side pattern
                kinds = {x[2] for x in xs}
                # all edits on one path?  (an if/else that edits either field is not side by side)
                if not all(b.dominates(xs[0][5], x[5]) or b.dominates(x[5], xs[0][5]) for x in xs):
                    continue
                n += 1
                ck.ob(rule, "parallel/%s/%s" % (b.short, "+".join(sorted(flds))), len(kinds) == 1,
                      "%s %s the vectors %s of %s %s" % (b.short, what, " and ".join("`%s` (%s)" % (x[0], x[3]) for x in sorted(xs)), adt.rsplit("::", 1)[-1],
                                                          "at the same position" if len(kinds) == 1 else "at DIFFERENT positions: they go out of step, element i of one no longer belongs to element i of the other"),
                      where=b.where(xs[0][4]))
    return n


# =====================================================================================================
# BOUNDARY: functions of one module that compare with the same named constant cut at the same point
# =====================================================================================================
def check_boundary_agreement(ck, rule, prog, bodies, what):
    """`x <= LIMIT` in the function that stores and `x < LIMIT` in the function that looks up disagree about x == LIMIT exactly (a contradiction rule:
    one of the two is wrong, whichever the intended bound is).  All comparisons of a non-constant value with one NAMED constant inside `bodies` must
    fall into the same partition: {x < C | x >= C} or {x <= C | x > C}.  Equality tests are no boundary."""
    from prov import Prov
    pvn = Prov(prog, inline=False)
    seen = {}
    for b in bodies:
        for cs in compare_switches(b, pvn):
            for kc, ko in (("r", "l"), ("l", "r")):
                c, o = cs[kc], cs[ko]
                if c.kind != "const" or not c.const.get("def") or o.kind == "const" or cs["op"] not in ("Lt", "Le", "Gt", "Ge"):
                    continue
                op = cs["op"] if kc == "r" else {"Lt": "Gt", "Le": "Ge", "Gt": "Lt", "Ge": "Le"}[cs["op"]]
                part = "x < C | x >= C" if op in ("Lt", "Ge") else "x <= C | x > C"
                seen.setdefault(c.const["def"], []).append((part, b, cs["line"], op))
    n = 0
    for cdef, xs in sorted(seen.items()):
        if len({x[1].id for x in xs}) < 2:
            continue
        n += 1
        parts = sorted({x[0] for x in xs})
        nm = cdef.rsplit("::", 1)[-1]
        ck.ob(rule, "boundary/%s" % nm, len(parts) == 1,
              "%s: %d comparisons with %s in %s %s" % (what, len(xs), nm, sorted({x[1].short for x in xs}), ("all cut at the same point (%s)" % parts[0].replace("C", nm)) if len(parts) == 1 else
                                                   "DISAGREE about the value %s itself: %s" % (nm, "; ".join("%s uses `%s`" % (x[1].short, {"Lt": "<", "Le": "<=", "Gt": ">", "Ge": ">="}[x[3]]) for x in xs))),
              where=xs[0][1].where(xs[0][2]))
    return n


# =====================================================================================================
# SELFCMP: a comparison impl compares `self` with `other`
# =====================================================================================================
def check_comparison_impls(ck, rule, prog, file_rx, floor=0):
    """in every hand-written or derived `PartialEq::eq` / `Ord::cmp` / `PartialOrd::partial_cmp` of the crate types in `file_rx`, each comparison
    (a call of eq / ne / cmp / partial_cmp / lt ..., or a primitive comparison) takes one operand from `self` and one from `other`.
    `self.id.cmp(&self.id)` is `Equal` for every pair: two different records with the same first key collapse into one in every ordered
    collection (BTreeSet / BTreeMap / sort + dedup) the type is put into."""
    from prov import Prov, params_of
    pv = Prov(prog, inline=False)
    CMP = ("eq", "ne", "cmp", "partial_cmp", "lt", "le", "gt", "ge", "total_cmp")
    n = 0
    for b in sorted(prog.production(), key=lambda x: x.id):
        if b.kind != "AssocFn" or not b.impl_trait or b.impl_trait.split("<")[0] not in ("std::cmp::PartialEq", "std::cmp::Ord", "std::cmp::PartialOrd") or not re.search(file_rx, b.file or "") or b.name not in ("eq", "cmp", "partial_cmp"):
            continue
        bad = []
        seen = 0
        for fb in prog.family(b):
            for bi, t in fb.calls():
                if t.callee.method in CMP and len(t.args) == 2:
                    ps = [params_of(pv.of_operand(fb, a), b.id) for a in t.args]
                    if all(ps):
                        seen += 1
                        if ps[0] == ps[1] and len(ps[0]) == 1:
                            bad.append((fb, t.line, t.callee.method, next(iter(ps[0]))))
            for pos, s in fb.stmts():
                if s.k == "assign" and s.rv["k"] == "bin" and s.rv["op"] in ("Eq", "Ne", "Lt", "Le", "Gt", "Ge"):
                    ps = [params_of(pv.of_operand(fb, o), b.id) for o in (s.rv["l"], s.rv["r"])]
                    if all(ps):
                        seen += 1
                        if ps[0] == ps[1] and len(ps[0]) == 1:
                            bad.append((fb, s.line, s.rv["op"], next(iter(ps[0]))))
        if not seen:
            continue
        n += 1
        if b.name == "eq" and not b.natural_loops():
            # an `eq` that answers through ONE comparison answers with its un-negated equality (or its negated inequality)
            cmp_calls = [(bi_, t_) for bi_, t_ in b.calls() if t_.callee.method in ("eq", "ne") and len(t_.args) == 2]
            cmp_bins = [st_ for _, st_ in b.stmts() if st_.k == "assign" and st_.rv["k"] == "bin" and st_.rv["op"] in ("Eq", "Ne") and bool_const_cmp(st_.rv) is None]
            if len(cmp_calls) == 1 and not cmp_bins:
                pol_, ct_ = bool_polarity(b, pv, lambda c_: c_ is cmp_calls[0][1].callee)
                if pol_ is not None:
                    says_equal = (cmp_calls[0][1].callee.method == "eq") == (pol_ == 1)
                    ck.ob(rule, "eq-polarity/%s" % b.short, says_equal, "%s answers %s when its comparison finds the two sides equal" % (b.short, "true" if says_equal else "FALSE (the equality is negated)"), where=b.where(cmp_calls[0][1].line))
        ck.ob(rule, "self-vs-other/%s" % b.short, not bad, "%s: %s" % (b.short, "each of its %d comparison(s) takes one operand from each side" % seen if not bad else
              "the comparison `%s` (line %s) takes BOTH operands from `%s`: it answers the same for every pair, so records that agree in the keys compared before it are equal to the collection" % (bad[0][2], bad[0][1], b.local_name(bad[0][3]))),
              where=(bad[0][0] if bad else b).where(bad[0][1] if bad else None))
    if floor:
        ck.floor(rule, "comparison impls of the record types", n, floor, soft=True)
    return n


# =====================================================================================================
# CTORS: `T::new()` and `T::default()` build the same value
# =====================================================================================================
def ctor_value(prog, body, args=None, depth=0):
    """the value a constructor-like body returns, as {field: value}; value = ('int', n) | ('float', x) | ('bool', b) | ('zero', type) for
    `<prim as Default>::default()` | ('param', i) | ('ctor', type path) for another constructor call | None (not read).  `args` = values of
    the parameters (a caller's constants).  A body that returns the result of another constructor of the same type is followed (depth 3)."""
    from prov import Prov
    if depth > 3:
        return None
    pv = Prov(prog, inline=False)
    defs = pv.defs(body)

    def val_of(op, seen=()):
        if op.kind == "const":
            c = op.const
            if c.get("int") is not None:
                return ("int", c["int"])
            fv = op.float_value()
            if fv is not None:
                return ("float", fv)
            if c.get("ty") == "bool":
                return ("bool", c.get("val") == "true")
            return ("const", c.get("def") or c.get("val"))
        if op.place is None or not op.place.is_local():
            return None
        l = op.place.local
        if l in seen:
            return None
        if 1 <= l <= body.nargs:
            return args[l - 1] if args and l - 1 < len(args) else ("param", l)
        ds = defs.get(l, [])
        if len(ds) != 1:
            return None
        kind, pos, d = ds[0]
        if kind == "assign":
            if d.rv["k"] in ("use", "cast") and "op" in d.rv:
                return val_of(d.rv["op"], seen + (l,))
            return None
        r = d.callee.res or d.callee.name or ""
        m = re.match(r"^<(u8|u16|u32|u64|usize|i8|i16|i32|i64|isize|f32|f64|bool) as std::default::Default>::default$", r)
        if m:
            return {"bool": ("bool", False), "f32": ("float", 0.0), "f64": ("float", 0.0)}.get(m.group(1), ("int", 0))
        if r.endswith("::default") or r.endswith("::new"):
            return ("ctor", re.sub(r"<[^<>]*>", "", r))
        return None
    # an aggregate of the type assigned to the result
    for pos, st in body.stmts():
        if st.k == "assign" and st.place.is_local() and st.place.local == 0 and st.rv["k"] == "agg" and st.rv.get("agg") == "adt":
            return {f: val_of(o) for f, o in zip(st.rv.get("fields", []), st.rv.get("ops", []))}
    # ... or the result of one other constructor of the crate
    rets = [(kind, d) for kind, pos, d in defs.get(0, [])]
    if len(rets) == 1 and rets[0][0] == "call":
        t = rets[0][1]
        tg = prog.bodies.get(t.callee.res or "")
        if tg is not None and tg.kind in ("Fn", "AssocFn"):
            return ctor_value(prog, tg, [val_of(a) for a in t.args], depth + 1)
    return None


def check_ctor_agreement(ck, rule, prog, file_rx, floor=0):
    """for every crate type in `file_rx` that has BOTH an argument-less `new()` and a `Default` impl: the two build the same value, field by
    field.  (A struct that gains a field keeps compiling under `#[derive(Default)]` - with the field's zero - while `new()` is updated by hand.)"""
    n = 0
    news = {}
    dfl = {}
    for b in prog.production():
        if b.kind != "AssocFn" or not b.impl_self or not re.search(file_rx, b.file or ""):
            continue
        adt = b.impl_self.get("adt")
        if b.name == "new" and b.nargs == 0 and not b.impl_trait:
            news[adt] = b
        if b.name == "default" and b.impl_trait == "std::default::Default":
            dfl[adt] = b
    for adt in sorted(set(news) & set(dfl)):
        a, d = ctor_value(prog, news[adt]), ctor_value(prog, dfl[adt])
        short = (adt or "?").rsplit("::", 1)[-1]
        if a is None or d is None or any(v is None for v in list(a.values()) + list(d.values())):
            ck.undecided(rule, "new~default/%s" % short, "%s::new() and %s::default(): the value of one of them is not read (%s / %s)" % (short, short, a, d), where=news[adt].where())
            continue
        n += 1
        diff = sorted(f for f in set(a) | set(d) if a.get(f) != d.get(f))
        ck.ob(rule, "new~default/%s" % short, not diff, "%s::new() and %s::default() %s" % (short, short, "build the same value (%d field(s))" % len(a) if not diff else
              "DIFFER in `%s`: new() has %s, default() has %s - two ways of constructing `the` default object that behave differently" % (diff[0], a.get(diff[0]), d.get(diff[0]))), where=dfl[adt].where())
    if floor:
        ck.floor(rule, "types with new() and Default", n, floor, soft=True)
    return n


# =====================================================================================================
# INDEX: a secondary index (name -> key) is written only where the primary map (key -> record) is written
# =====================================================================================================
def check_secondary_index(ck, rule, prog, adt_rx):
    """struct fields P: Map<K, R> and X: Map<N, K> of one crate struct (the value type of X is the key type of P): X is an index into P.
    Every write into X (insert / or_insert / entry..insert) in the methods of that struct happens where a record is put into P as well: it
    is dominated by an insertion into P (`P.insert(..)`, or `VacantEntry::insert` of `P.entry(..)`).  An index entry written on a path where
    the record was already there (the Occupied side) names a key under a name its record does not carry."""
    from prov import Prov, field_names
    pv = Prov(prog, inline=False)
    n = 0
    for path, adt in sorted(prog.adts.items()):
        if adt.get("test") or adt.get("enum") or not re.search(adt_rx, path):
            continue
        fields = [(f.get("name"), f.get("ty") or "") for v in adt.get("variants", []) for f in v.get("fields", [])]
        maps = {}
        for nm, ty in fields:
            m = re.match(r"^std::collections::(?:HashMap|BTreeMap)<(.+)>$", ty)
            if not m:
                continue
            inner = m.group(1)
            depth, cut = 0, None
            for i, ch in enumerate(inner):
                depth += ch == "<"
                depth -= ch == ">"
                if ch == "," and depth == 0:
                    cut = i
                    break
            if cut is not None:
                maps[nm] = (inner[:cut].strip(), inner[cut + 1:].strip())
        short = path.rsplit("::", 1)[-1]
        for xn, (xk, xv) in sorted(maps.items()):
            prim = [pn for pn, (pk, pv_) in maps.items() if pn != xn and pk == xv]
            if len(prim) != 1:
                continue
            pn = prim[0]
            for b in sorted(prog.production(), key=lambda z: z.id):
                if b.kind != "AssocFn" or not b.impl_self or b.impl_self.get("adt") != path:
                    continue
                def field_of(t):
                    return field_names(pv.of_operand(b, t.args[0]), short) if t.args else set()
                xw = [(bi, t) for bi, t in b.calls() if t.callee.method in ("insert", "or_insert", "or_insert_with", "or_default") and xn in field_of(t) and pn not in field_of(t)]
                if not xw:
                    continue
                pw = [bi for bi, t in b.calls() if t.callee.method in ("insert",) and pn in field_of(t) and xn not in field_of(t)]
                for bi, t in xw:
                    n += 1
                    ok = any(b.dominates(p, bi) for p in pw)
                    if not pw:
                        ck.undecided(rule, "index/%s.%s/%s/%d" % (short, xn, b.short, bi), "%s writes the index `%s` but no insertion into `%s` is seen in its body: not decided" % (b.short, xn, pn), where=b.where(t.line))
                    else:
                        ck.ob(rule, "index/%s.%s/%s/%d" % (short, xn, b.short, bi), ok, "%s writes an entry of the index `%s` (-> key of `%s`) %s" % (b.short, xn, pn,
                              "only where a record is inserted into `%s`" % pn if ok else "on a path where NO record is inserted into `%s` (the key may already be there under another name): the index then names a record that does not carry that name" % pn), where=b.where(t.line))
    return n


# =====================================================================================================
# OPTIONAL: `fn f(&self) -> Option<..> { if <nothing to report> { None } else { Some(self.f) } }`
# =====================================================================================================
def _test_edges(body, pv):
    """the two-way tests of a body as dicts {kind: 'empty'|'equal', 'same': [edges on which the collection is EMPTY / the operands are EQUAL],
    'diff': [edges of the opposite outcome], 'ops': operands, 'line'}.  Sources: `is_empty()` calls, `eq` / `ne` calls, primitive == / !=."""
    out = []
    for bi, t in body.calls():
        m = t.callee.method
        if m == "is_empty" and len(t.args) == 1:
            pos = set(positive_edges(body, pv, bi))
            sw = {e[0] for e in pos}
            neg = {(sb, tg) for sb in sw for tg in body.succ[sb] if (sb, tg) not in pos}
            if pos:
                out.append({"kind": "empty", "same": pos, "diff": neg, "ops": [t.args[0]], "line": t.line, "bb": bi})
        elif m in ("eq", "ne") and len(t.args) == 2 and (t.callee.trait or "").endswith("PartialEq"):
            pos = set(positive_edges(body, pv, bi))
            sw = {e[0] for e in pos}
            neg = {(sb, tg) for sb in sw for tg in body.succ[sb] if (sb, tg) not in pos}
            if pos:
                out.append({"kind": "equal", "same": pos if m == "eq" else neg, "diff": neg if m == "eq" else pos, "ops": list(t.args), "line": t.line, "bb": bi})
    for c in compare_switches(body, pv):
        if any(o.kind == "const" and (o.const or {}).get("ty") == "bool" for o in (c["l"], c["r"])):
            continue  # `x == false`: a negation of x (read by positive_edges), not a comparison of two values
        if c["op"] in ("Eq", "Ne") and c["true_tg"] is not None and c["false_tg"] is not None:
            te, fe = {(c["bb"], c["true_tg"])}, {(c["bb"], c["false_tg"])}
            out.append({"kind": "equal", "same": te if c["op"] == "Eq" else fe, "diff": fe if c["op"] == "Eq" else te, "ops": [c["l"], c["r"]], "line": c["line"], "bb": c["bb"]})
    return out


def _self_paths(body, pv, op):
    """field paths (tuples of names) below parameter 1 that an operand is read from"""
    return {tuple(e[1] for e in a[3] if e and e[0] == "f") for a in pv.of_operand(body, op) if a[0] == "param" and a[1] == body.id and a[2] == 1}


def check_optional_accessors(ck, rule, prog, file_rx, adt_rx, floor=0):
    """accessors `fn f(&self) -> Option<..>` of the types in `adt_rx` that answer `None` when there is nothing to report and `Some(<field>)`
    otherwise: the test reads the field that is handed out (its emptiness, or the equality of its TWO components), and `None` stands on the
    empty / equal side."""
    from prov import Prov
    pv = Prov(prog, inline=False)
    n = 0
    for b in sorted(prog.production(), key=lambda z: z.id):
        if b.kind != "AssocFn" or b.nargs != 1 or not re.search(file_rx, b.file or "") or not b.impl_self or not re.search(adt_rx, b.impl_self.get("adt") or "") or b.impl_trait:
            continue
        if not b.locals[0]["s"].startswith("std::option::Option<") or b.natural_loops():
            continue
        nones = [bi for bi in sorted(b.reach) for st in b.blocks[bi].stmts if st.k == "assign" and st.place.is_local() and st.place.local == 0 and st.rv["k"] == "agg" and st.rv.get("variant") == "None"]
        somes = [(bi, st) for bi in sorted(b.reach) for st in b.blocks[bi].stmts if st.k == "assign" and st.place.is_local() and st.place.local == 0 and st.rv["k"] == "agg" and st.rv.get("variant") == "Some"]
        if len(nones) != 1 or len(somes) != 1:
            continue
        payload = _self_paths(b, pv, somes[0][1].rv["ops"][0])
        pf = {p[0] for p in payload if p}
        if len(pf) != 1:
            continue
        field = next(iter(pf))
        tests = [t for t in _test_edges(b, pv) if any(e[1] == nones[0] or b.edge_dominates(e, nones[0]) for e in t["same"] | t["diff"])]
        if len(tests) != 1:
            continue
        t = tests[0]
        n += 1
        read = [_self_paths(b, pv, o) for o in t["ops"]]
        fields_read = {p[0] for ps in read for p in ps if p}
        none_on_same = any(e[1] == nones[0] or b.edge_dominates(e, nones[0]) for e in t["same"]) and not any(e[1] == nones[0] or b.edge_dominates(e, nones[0]) for e in t["diff"])
        problems = []
        if fields_read != {field}:
            problems.append("the test reads `%s`, the value handed out is `%s`" % ("/".join(sorted(fields_read)) or "?", field))
        if t["kind"] == "equal":
            comps = [{p[1] for p in ps if len(p) > 1} for ps in read]
            if len(comps) == 2 and comps[0] == comps[1] and len(comps[0]) == 1:
                problems.append("both sides of the comparison are component `%s` (always equal)" % next(iter(comps[0])))
        if not none_on_same:
            problems.append("`None` stands on the side where the field is %s" % ("NOT empty" if t["kind"] == "empty" else "DIFFERENT"))
        ck.ob(rule, "optional/%s" % b.short, not problems, "%s answers None %s" % (b.short, ("exactly when `%s` %s" % (field, "is empty" if t["kind"] == "empty" else "has two equal components")) if not problems else "wrongly: " + "; ".join(problems)), where=b.where(t["line"]))
    if floor:
        ck.floor(rule, "Option-valued accessors of the delta types", n, floor, soft=True)
    return n


def _decision_paths(body, pv, t, nones, somes, budget=4000):
    """path enumeration for check_change_decision: walk from the block of test `t` with its outcome fixed to `differs`; bool locals assigned constants,
    negations and copies on the way are tracked, the outcomes of the OTHER tests are free (both branches).  True: every path ends in a Some
    block; False: some path ends in a None block; None: a branch on something that is not tracked."""
    defs = pv.defs(body)
    diff_edges = set(t["diff"])
    same_edges = set(t["same"])
    state = {"n": 0, "bad": False, "unknown": False}

    def walk(bi, env, seen):
        state["n"] += 1
        if state["n"] > budget or bi in seen:
            state["unknown"] = state["unknown"] or state["n"] > budget
            return
        if bi in nones:
            state["bad"] = True
            return
        if bi in somes:
            return
        seen = seen | {bi}
        env = dict(env)
        blk = body.blocks[bi]
        for st in blk.stmts:
            if st.k != "assign" or not st.place.is_local():
                continue
            rv = st.rv
            v = None
            if rv["k"] == "use" and rv["op"].kind == "const" and (rv["op"].const or {}).get("ty") == "bool":
                v = rv["op"].const.get("val") == "true"
            elif rv["k"] == "use" and rv["op"].place is not None and rv["op"].place.is_local():
                v = env.get(rv["op"].place.local)
            elif rv["k"] == "un" and rv["op"] == "Not" and rv["o"].place is not None and rv["o"].place.is_local():
                x = env.get(rv["o"].place.local)
                v = (not x) if isinstance(x, bool) else None
            elif bool_const_cmp(rv) is not None:
                o_, sg_ = bool_const_cmp(rv)
                x = env.get(o_.place.local)
                v = (x if sg_ == 1 else (not x)) if isinstance(x, bool) else None
            if v is None:
                env.pop(st.place.local, None)
            else:
                env[st.place.local] = v
        x = blk.term
        if x.k == "switch":
            succs = list(dict.fromkeys(x.successors()))
            # the fixed test: only its `differs` edges
            fixed = [tg for tg in succs if (bi, tg) in diff_edges]
            if fixed or any((bi, tg) in same_edges for tg in succs):
                for tg in fixed:
                    walk(tg, env, seen)
                return
            l = x.discr.place.local if x.discr.place is not None and x.discr.place.is_local() else None
            val = env.get(l) if l is not None else None
            if isinstance(val, bool):
                tgt = [tg for v_, tg in x.targets if v_ == (1 if val else 0)] or [x.otherwise]
                for tg in tgt:
                    if tg is not None:
                        walk(tg, env, seen)
                return
            for tg in succs:  # a free decision (another test, or anything else): both ways
                walk(tg, env, seen)
            return
        for tg in body.succ[bi]:
            walk(tg, env, seen)
    for e in t["diff"]:
        walk(e[1], {}, frozenset())
    if state["unknown"]:
        return None
    return not state["bad"]


def check_change_decision(ck, rule, prog, body, label):
    """a constructor `-> Option<Self>` that answers `Some(..)` when ANY of several component tests finds a difference: from the `differs` edge of
    each component test the `None` result is no longer reachable (the tests are OR-ed, none of them is AND-ed with a later one)."""
    from prov import Prov
    pv = Prov(prog, inline=False)
    nones = [bi for bi in sorted(body.reach) for st in body.blocks[bi].stmts if st.k == "assign" and st.place.is_local() and st.place.local == 0 and st.rv["k"] == "agg" and st.rv.get("variant") == "None"]
    somes = [bi for bi in sorted(body.reach) for st in body.blocks[bi].stmts if st.k == "assign" and st.place.is_local() and st.place.local == 0 and st.rv["k"] == "agg" and st.rv.get("variant") == "Some"]
    if not nones or not somes:
        ck.undecided(rule, "decision/%s" % label, "%s: no None / Some result pair recognised" % body.short, where=body.where())
        return 0
    n = 0
    for t in sorted(_test_edges(body, pv), key=lambda x: x["line"]):
        reach_same = set().union(*[body.reachable_from(e[1]) | {e[1]} for e in t["same"]]) if t["same"] else set()
        reach_diff = set().union(*[body.reachable_from(e[1]) | {e[1]} for e in t["diff"]]) if t["diff"] else set()
        if not (reach_same & set(nones)) or not ((reach_same | reach_diff) & set(somes)):
            continue  # not one of the tests that decide between None and Some
        n += 1
        bad = bool(reach_diff & set(nones))
        if bad:
            # the outcome may be materialised in a bool first (`let unchanged = a.is_empty() && b.is_empty() && x == y; if unchanged { return None }`):
            # the blocks behind the test then reach both results through a later switch on that variable, which block reachability cannot tell
            # apart.  A switch on a bool local that is ASSIGNED (a constant, or another test's result) on the way is such a join: undecided.
            defs_ = pv.defs(body)
            joins = []
            for sb in sorted(reach_diff):
                x = body.blocks[sb].term
                if x.k == "switch" and x.discr.place is not None and x.discr.place.is_local() and body.locals[x.discr.place.local]["s"] == "bool":
                    # follow plain copies back to the variable
                    l_, seen_l = x.discr.place.local, set()
                    while l_ not in seen_l:
                        seen_l.add(l_)
                        ds_ = defs_.get(l_, [])
                        if len(ds_) == 1 and ds_[0][0] == "assign" and ds_[0][2].rv["k"] == "use" and ds_[0][2].rv["op"].place is not None and ds_[0][2].rv["op"].place.is_local():
                            l_ = ds_[0][2].rv["op"].place.local
                        else:
                            break
                    ds_ = defs_.get(l_, [])
                    if len(ds_) > 1 or any(k_ == "assign" and d_.rv["k"] == "use" and d_.rv["op"].kind == "const" for k_, p_, d_ in ds_):
                        if any(p_[0] in reach_diff or p_[0] == t["bb"] for k_, p_, d_ in ds_):
                            joins.append(sb)
            if joins:
                verdict = _decision_paths(body, pv, t, nones, somes)
                if verdict is not None:
                    ck.ob(rule, "decision/%s/test@%d" % (label, n), verdict, "%s: once the test in line %s finds a difference the result %s (paths through the stored condition enumerated)" % (body.short, t["line"], "is Some(..)" if verdict else
                          "can still be None: an item that differs only in this component is not reported"), where=body.where(t["line"]))
                    continue
                ck.undecided(rule, "decision/%s/test@%d" % (label, n), "%s: the outcome of the test in line %s is stored in a bool that a later branch decides on (De Morgan'd / named condition): which result follows is not read off block reachability" % (body.short, t["line"]), where=body.where(t["line"]))
                continue
        ck.ob(rule, "decision/%s/test@%d" % (label, n), not bad, "%s: once the test in line %s finds a difference the result %s" % (body.short, t["line"], "is Some(..)" if not bad else
              "can still be None (the test is AND-ed with a later one): an item that differs only in this component is not reported"), where=body.where(t["line"]))
    return n
