"""Symbolic expressions of straight-line arithmetic in MIR, and their comparison as rational functions.

This is NOT symbolic execution: no paths are explored and no solver is asked.  The expression tree that *defines* an operand
(through single-definition temporaries of one body) is extracted, normalised to a quotient of two polynomials over Q whose
indeterminates are the leaves (parameters, recognised calls, opaque function applications), and compared with the normal form of
the documented formula.  Algebraically equal rewrites (2*x vs x+x, a/b/c vs a/(b*c)) therefore compare equal; anything that is not
recognised makes the result UNKNOWN (-> undecided), never a violation.

Expression forms (tuples):
  ('c', Fraction)            ('s', name)              ('u', why)   unknown
  ('+', a, b) ('-', a, b) ('*', a, b) ('/', a, b) ('neg', a)
  ('f', fname, (args...))    opaque function of its (normalised) arguments, e.g. exp, ln, idiv, byte
"""
import re
from fractions import Fraction

FLOAT_TYS = ("f32", "f64")
FLOAT_FNS = {"exp": "exp", "ln": "ln", "sqrt": "sqrt", "abs": "abs", "log2": "log2", "log10": "log10", "exp2": "exp2", "floor": "floor", "ceil": "ceil", "round": "round", "sin": "sin", "cos": "cos"}
TRANSPARENT_METHODS = {"from", "into", "clone", "to_owned", "copied", "cloned", "borrow", "deref", "as_ref", "try_from", "try_into", "unwrap", "expect", "unwrap_or_default"}


def C(v):
    return ("c", Fraction(v))


def S(name):
    return ("s", name)


def F(name, *args):
    return ("f", name, tuple(args))


def add(a, b):
    return ("+", a, b)


def sub(a, b):
    return ("-", a, b)


def mul(a, b):
    return ("*", a, b)


def div(a, b):
    return ("/", a, b)


def unknowns(e):
    if e[0] == "u":
        return [e[1]]
    if e[0] in ("c", "s"):
        return []
    if e[0] == "f":
        out = []
        for a in e[2]:
            out += unknowns(a)
        return out
    out = []
    for a in e[1:]:
        out += unknowns(a)
    return out


def symbols(e):
    if e[0] == "s":
        return {e[1]}
    if e[0] in ("c", "u"):
        return set()
    if e[0] == "f":
        out = set()
        for a in e[2]:
            out |= symbols(a)
        return out
    out = set()
    for a in e[1:]:
        out |= symbols(a)
    return out


def show(e):
    k = e[0]
    if k == "c":
        return str(e[1])
    if k == "s":
        return e[1]
    if k == "u":
        return "?<%s>" % e[1]
    if k == "neg":
        return "-(%s)" % show(e[1])
    if k == "f":
        return "%s(%s)" % (e[1], ", ".join(show(a) for a in e[2]))
    return "(%s %s %s)" % (show(e[1]), k, show(e[2]))


# ------------------------------------------------------------------------------------------------ polynomials over Q
# polynomial: dict {monomial: Fraction}, monomial: tuple of (symbol, exponent) sorted; () is the constant monomial

def p_const(v):
    return {(): Fraction(v)} if v != 0 else {}


def p_sym(name):
    return {((name, 1),): Fraction(1)}


def p_add(a, b, sign=1):
    out = dict(a)
    for m, c in b.items():
        v = out.get(m, 0) + sign * c
        if v == 0:
            out.pop(m, None)
        else:
            out[m] = v
    return out


def _m_mul(m1, m2):
    d = dict(m1)
    for s, e in m2:
        d[s] = d.get(s, 0) + e
    return tuple(sorted(d.items()))


def p_mul(a, b):
    out = {}
    for m1, c1 in a.items():
        for m2, c2 in b.items():
            m = _m_mul(m1, m2)
            v = out.get(m, 0) + c1 * c2
            if v == 0:
                out.pop(m, None)
            else:
                out[m] = v
    return out


def p_key(p):
    return tuple(sorted((m, str(c)) for m, c in p.items()))


class Unknown(Exception):
    pass


def normal(e):
    """rational normal form (N, D) of an expression; raises Unknown on ('u', ..)"""
    k = e[0]
    if k == "c":
        return p_const(e[1]), p_const(1)
    if k == "s":
        return p_sym(e[1]), p_const(1)
    if k == "u":
        raise Unknown(e[1])
    if k == "neg":
        n, d = normal(e[1])
        return p_add({}, n, -1), d
    if k == "f":
        keys = []
        for a in e[2]:
            n, d = normal(a)
            keys.append(canon(n, d))
        if e[1] in ("max", "min"):
            keys.sort(key=repr)
        return p_sym("%s%r" % (e[1], tuple(keys))), p_const(1)
    n1, d1 = normal(e[1])
    n2, d2 = normal(e[2])
    if k == "+":
        return p_add(p_mul(n1, d2), p_mul(n2, d1)), p_mul(d1, d2)
    if k == "-":
        return p_add(p_mul(n1, d2), p_mul(n2, d1), -1), p_mul(d1, d2)
    if k == "*":
        return p_mul(n1, n2), p_mul(d1, d2)
    if k == "/":
        if not n2:
            raise Unknown("division by the zero polynomial")
        return p_mul(n1, d2), p_mul(d1, n2)
    raise Unknown("form %s" % k)


def canon(n, d):
    """a canonical key of N/D: scale so that the smallest monomial of D has coefficient 1 (no gcd reduction)"""
    if not d:
        return ("nan",)
    lead = d[min(d)]
    n2 = {m: c / lead for m, c in n.items()}
    d2 = {m: c / lead for m, c in d.items()}
    return (p_key(n2), p_key(d2))


def equal(e1, e2):
    """True / False: algebraic equality as rational functions; None if either side is unknown"""
    try:
        n1, d1 = normal(e1)
        n2, d2 = normal(e2)
    except Unknown:
        return None
    return p_add(p_mul(n1, d2), p_mul(n2, d1), -1) == {}


def affine(e, sym=None):
    """for integer offset arithmetic: {symbol-or-(): coefficient} if the expression is a polynomial of degree <= 1 with
    denominator 1; None otherwise"""
    try:
        n, d = normal(e)
    except Unknown:
        return None
    if d != p_const(1):
        return None
    out = {}
    for m, c in n.items():
        if m == ():
            out[()] = c
        elif len(m) == 1 and m[0][1] == 1:
            out[m[0][0]] = c
        else:
            return None
    return out


# ------------------------------------------------------------------------------------------------ extraction from MIR

class Extract:
    """leaf(ex, body, kind, obj) -> expr | None
         kind 'param'  obj = (index, path)
         kind 'call'   obj = call terminator (result of the call is asked)
         kind 'phi'    obj = local with several definitions
         kind 'place'  obj = Place with projections that are not understood
       returning None makes the node unknown.
       `at` = (bb, stmt index) of the use: a local with several definitions is resolved to the single definition that reaches
       the use (block-level reaching definitions); without a position, or with several reaching definitions, it is unknown."""

    def __init__(self, prog, pv, leaf=None, max_depth=80, fold_named=False):
        self.prog = prog
        self.fold_named = fold_named  # a named scalar float constant whose value the compiler folded is replaced by that value
        self.pv = pv
        self.leaf = leaf or (lambda ex, body, kind, obj: None)
        self.max_depth = max_depth
        self._memo = {}
        self._active = set()

    def operand(self, body, op, depth=0, at=None):
        if op.kind == "const":
            c = op.const
            if c.get("int") is not None:
                return C(c["int"])
            if c.get("named") and c.get("def"):
                if self.fold_named:
                    fv = op.float_value()
                    if fv is not None and fv == fv and fv not in (float("inf"), float("-inf")):
                        return C(Fraction(str(fv)))
                return S("const:%s" % c["def"])  # a named crate constant stays a symbol in formulas (its value is judged where it is defined)
            fv = op.float_value()
            if fv is not None:
                if fv != fv or fv in (float("inf"), float("-inf")):
                    return S("const:%s" % fv)
                return C(Fraction(str(fv)))
            if c["ty"] == "bool":
                return C(1 if c["val"] == "true" else 0)
            if c.get("def") and c["ty"] in FLOAT_TYS + ("usize", "u8", "u16", "u32", "u64", "i32", "i64"):
                return S("const:%s" % c["def"])
            return ("u", "const %s" % c.get("val"))
        return self.place(body, op.place, depth, at)

    def place(self, body, pl, depth=0, at=None):
        if depth > self.max_depth:
            return ("u", "depth")
        fields = [e for e in pl.fields() if e != "*"]
        if not fields:
            return self.local(body, pl.local, depth, at)
        # (checked arithmetic result).0
        if len(fields) == 1 and fields[0][0] == "f" and fields[0][1] == "0":
            d = self.reaching_def(body, pl.local, at)
            if d is not None and d[0] == "assign" and d[2].rv["k"] == "bin" and d[2].rv["op"].endswith("WithOverflow"):
                return self.rvalue(body, d[2], depth + 1, d[1])
        # field i of a tuple local that is built once from operands: that operand
        if len(fields) == 1 and fields[0][0] == "f" and fields[0][1].isdigit():
            d = self.reaching_def(body, pl.local, at)
            if d is not None and d[0] == "assign" and d[2].rv["k"] == "agg" and d[2].rv.get("agg") == "tuple" and int(fields[0][1]) < len(d[2].rv["ops"]):
                return self.operand(body, d[2].rv["ops"][int(fields[0][1])], depth + 1, d[1])
        # payload of Option / Result / ControlFlow: `(x as Some).0`, `(x as Ok).0`, `(x as Continue).0` is the wrapped value
        if len(fields) == 2 and fields[0][0] == "dc" and fields[0][1] in ("Some", "Ok", "Continue") and fields[1][0] == "f" and fields[1][1] == "0":
            return self.local(body, pl.local, depth + 1, at)
        self._at = at
        r = self.leaf(self, body, "place", pl)
        return r if r is not None else ("u", "projection %r" % (pl,))

    def reaching_def(self, body, l, at):
        """the unique definition (kind, pos, d) of local l that reaches position `at`; None if there is none or several"""
        ds = self.pv.defs(body).get(l, [])
        if len(ds) == 1:
            return ds[0]
        if not ds or at is None:
            return None
        ubb, uidx = at
        # a definition earlier in the same block wins
        same = [d for d in ds if d[1][0] == ubb and d[1][1] < uidx]
        if same:
            return max(same, key=lambda d: d[1][1])
        def_blocks = {d[1][0] for d in ds}
        reach = []
        for d in ds:
            dbb = d[1][0]
            later_same = [x for x in ds if x is not d and x[1][0] == dbb and x[1][1] > d[1][1]]
            if later_same:
                continue  # overwritten in its own block
            # blocks reachable from the end of dbb without passing another defining block
            seen = set()
            st = list(body.succ[dbb])
            hit = False
            while st:
                x = st.pop()
                if x == ubb:
                    hit = True
                    break
                if x in seen or (x in def_blocks):
                    # a defining block kills the value (x == dbb on a back edge also redefines)
                    continue
                seen.add(x)
                st.extend(body.succ[x])
            if hit:
                reach.append(d)
        return reach[0] if len(reach) == 1 else None

    def local(self, body, l, depth=0, at=None):
        if depth > self.max_depth:
            return ("u", "depth")
        ds = self.pv.defs(body).get(l, [])
        key = (body.id, l, at if len(ds) > 1 else None)
        if key in self._memo:
            return self._memo[key]
        if key in self._active:
            return ("u", "local _%d is defined in terms of itself (loop-carried)" % l)
        self._active.add(key)
        try:
            r = self._local(body, l, depth, at, ds)
        finally:
            self._active.discard(key)
        self._memo[key] = r
        return r

    def _local(self, body, l, depth, at, ds):
        if not ds:
            if 1 <= l <= body.nargs:
                r = self.leaf(self, body, "param", (l, ()))
                return r if r is not None else S("%s#p%d" % (body.short, l))
            return ("u", "undefined local _%d" % l)
        if len(ds) > 1:
            d = self.reaching_def(body, l, at)
            if d is None:
                self._at = at
                r = self.leaf(self, body, "phi", l)
                if r is not None:
                    return r
                return ("u", "local _%d has %d definitions and no unique one reaches the use" % (l, len(ds)))
        else:
            d = ds[0]
        kind, pos, dd = d
        if kind == "call":
            return self.call(body, dd, depth + 1, pos)
        return self.rvalue(body, dd, depth + 1, pos)

    def _inline(self, tg, args, depth):
        """result expression of a loop-free helper, parameters replaced by `args`; None if it has several different results"""
        sub = Extract(self.prog, self.pv, self._inline_leaf(args), self.max_depth, fold_named=self.fold_named)
        rets = []
        for kind, pos, d in self.pv.defs(tg).get(0, []):
            e = sub.rvalue(tg, d, depth, pos) if kind == "assign" else sub.call(tg, d, depth, pos)
            rets.append(e)
        nonconst = [e for e in rets if e[0] != "c"]
        if len(nonconst) == 1:
            return nonconst[0]
        if not nonconst and len(rets) == 1:
            return rets[0]
        return None

    def _inline_leaf(self, args):
        outer = self.leaf

        def leaf(ex, body, kind, obj):
            if kind == "param" and 1 <= obj[0] <= len(args):
                return args[obj[0] - 1]
            return None
        return leaf

    def _conversion_body(self, tg):
        """a crate function of one argument that only converts its argument between numeric types"""
        if tg.kind not in ("Fn", "AssocFn") or tg.nargs != 1:
            return False
        for _, st in tg.stmts():
            if st.k == "assign" and st.rv["k"] in ("bin", "un", "agg") and not (st.rv["k"] == "agg" and st.rv.get("variant") in ("Ok", "Some")):
                return False
        for _, t in tg.calls():
            if t.callee.method not in TRANSPARENT_METHODS and not (t.callee.method == "branch") and not (t.callee.method in ("from_residual", "map_err", "ok_or")):
                return False
        return bool(list(tg.calls()))

    def rvalue(self, body, st, depth, at=None):
        rv = st.rv
        k = rv["k"]
        if k == "use":
            return self.operand(body, rv["op"], depth, at)
        if k == "cast":
            kind = rv.get("kind", "")
            src = self.operand(body, rv["op"], depth, at)
            if "FloatToInt" in kind:
                return F("toint", src)
            return src
        if k == "ref":
            return self.place(body, rv["place"], depth, at)
        if k == "un":
            o = self.operand(body, rv["o"], depth, at)
            if rv["op"] == "Neg":
                return ("neg", o)
            return F(rv["op"].lower(), o)
        if k == "bin":
            a = self.operand(body, rv["l"], depth, at)
            b = self.operand(body, rv["r"], depth, at)
            op = rv["op"]
            base = re.sub(r"(WithOverflow|Unchecked)$", "", op)
            isf = rv.get("lty") in FLOAT_TYS
            if base == "Add":
                return add(a, b)
            if base == "Sub":
                return sub(a, b)
            if base == "Mul":
                return mul(a, b)
            if base == "Div":
                return div(a, b) if isf else F("idiv", a, b)
            return F(base.lower(), a, b)
        if k == "agg" and rv.get("agg") == "tuple" and len(rv["ops"]) == 1:
            return self.operand(body, rv["ops"][0], depth, at)
        if k == "agg" and rv.get("variant") in ("Some", "Ok", "Continue") and len(rv["ops"]) == 1:
            return self.operand(body, rv["ops"][0], depth, at)
        return ("u", "rvalue %s" % k)

    def call(self, body, t, depth, at=None):
        self._at = at
        r = self.leaf(self, body, "call", t)
        if r is not None:
            return r
        c = t.callee
        nm = c.name or ""
        A = lambda x: self.operand(body, x, depth, at)
        if c.method in FLOAT_FNS and re.search(r"\bf(32|64)\b", nm) and len(t.args) == 1:
            return F(FLOAT_FNS[c.method], A(t.args[0]))
        if c.method in ("max", "min") and re.search(r"\bf(32|64)\b", nm) and len(t.args) == 2 and c.trait != "std::iter::Iterator":
            return F(c.method, A(t.args[0]), A(t.args[1]))
        if c.method == "recip" and len(t.args) == 1:
            return div(C(1), A(t.args[0]))
        if c.method == "mul_add" and len(t.args) == 3:
            return add(mul(A(t.args[0]), A(t.args[1])), A(t.args[2]))
        if c.method == "powi" and len(t.args) == 2 and t.args[1].kind == "const" and t.args[1].int_value() is not None and 0 <= t.args[1].int_value() <= 6:
            base = A(t.args[0])
            out = C(1)
            for _ in range(t.args[1].int_value()):
                out = mul(out, base)
            return out
        if c.trait in ("std::ops::Add", "std::ops::Sub", "std::ops::Mul", "std::ops::Div", "std::ops::Neg") and re.search(r"f32|f64", c.def_args or nm):
            a = [A(x) for x in t.args]
            return {"std::ops::Add": add, "std::ops::Sub": sub, "std::ops::Mul": mul, "std::ops::Div": div}[c.trait](*a) if c.trait != "std::ops::Neg" else ("neg", a[0])
        tg = self.prog.bodies.get(c.res) if c.res else None
        if tg is not None and len(t.args) == 1 and self._conversion_body(tg):
            return A(t.args[0])
        if tg is not None and tg.kind in ("Fn", "AssocFn") and tg.id != body.id and depth < self.max_depth - 10 and not tg.natural_loops() and len(tg.reach) <= 12:
            # a small loop-free crate-local helper: its result expression with the arguments substituted for its parameters
            args = [A(x) for x in t.args]
            r2 = self._inline(tg, args, depth + 1)
            if r2 is not None and not unknowns(r2):
                return r2
        if c.method == "branch" and c.trait == "std::ops::Try" and len(t.args) == 1:
            return A(t.args[0])
        if c.method in TRANSPARENT_METHODS and len(t.args) == 1 and re.search(r"\b(f32|f64|u8|u16|u32|u64|usize|i32|i64)\b", (c.def_args or "") + nm):
            return A(t.args[0])
        return ("u", "call %s" % (c.res or c.name))
