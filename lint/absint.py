"""GUARD: a small forward abstract interpretation for sign / zero-ness of numeric locals.

Lattice per local:  Z (=0)  P (>0)  NN (>=0)  NZ (!=0)  T (unknown)
plus the predicate nonempty(root local of a collection) and nothing else.  No path condition is
collected, no expression is built; refinement happens only on SwitchInt edges whose discriminant is a
comparison with a constant or an `is_empty()` call.  Crate-local callees are summarised by running the
same interpretation on their body with the argument classes (depth-bounded, memoised).
"""
import re

Z, P, NN, NZ, T = "Z", "P", "NN", "NZ", "T"


def join(a, b):
    if a == b:
        return a
    if a is None:
        return b
    if b is None:
        return a
    s = {a, b}
    if s <= {Z, NN, P}:
        return NN
    if s <= {P, NZ}:
        return NZ
    return T


def meet_nonzero(a):
    if a in (NN, P):
        return P
    if a == Z:
        return None  # contradiction: unreachable edge
    return NZ if a in (T, NZ) else a


def meet_zero(a):
    if a in (P, NZ):
        return None
    return Z


def is_unsigned(ty):
    return ty in ("usize", "u8", "u16", "u32", "u64", "u128")


def is_float(ty):
    return ty in ("f32", "f64")


def const_class(op):
    iv = op.int_value()
    if iv is not None:
        ty = op.const["ty"]
        if ty.startswith("i"):
            bits = {"i8": 8, "i16": 16, "i32": 32, "i64": 64, "i128": 128, "isize": 64}.get(ty, 64)
            if iv >= 1 << (bits - 1):
                return NZ
        return Z if iv == 0 else P
    fv = op.float_value()
    if fv is not None:
        if fv == 0:
            return Z
        return P if fv > 0 else NZ
    return T


CONVERSIONS = {
    "into", "from", "try_into", "try_from", "unwrap", "expect", "branch", "clone", "copied", "cloned",
    "unwrap_unchecked", "deref", "borrow", "as_ref", "to_owned", "ok_or", "unwrap_or_default",
}
NONNEG_FUNCS = {"abs", "len", "count", "sqrt", "powi_DISABLED"}
POS_FUNCS = {"exp"}


class Interp:
    def __init__(self, prog, axioms=None, max_depth=3):
        """axioms: callable(callee) -> class or None  (trusted classes for named callees)"""
        self.prog = prog
        self.axioms = axioms or (lambda c: None)
        self.max_depth = max_depth
        self.memo = {}
        self.assumed = []

    # ----------------------------------------------------------------------------
    def analyse(self, body, arg_classes=None, depth=0):
        """returns dict: block -> entry state; state = (vals: dict local->class, nonempty: frozenset(local))"""
        key = (body.id, tuple(sorted((arg_classes or {}).items())))
        if key in self.memo:
            return self.memo[key]
        self.memo[key] = None  # recursion guard
        prev_key = getattr(self, "_cur_key", None)
        self._cur_key = key
        init_vals = {}
        for l in range(1, body.nargs + 1):
            ty = body.locals[l]["s"]
            c = T
            if is_unsigned(ty):
                c = NN
            if arg_classes and l in arg_classes and arg_classes[l] is not None:
                c = arg_classes[l] if arg_classes[l] != T else c
            init_vals[l] = c
        entry = {0: (init_vals, frozenset())}
        work = [0]
        iters = 0
        out_states = {}
        while work and iters < 4000:
            iters += 1
            bi = work.pop()
            st = entry.get(bi)
            if st is None:
                continue
            edges = self._transfer_block(body, bi, st, depth)
            for tgt, est in edges:
                if est is None:
                    continue
                old = entry.get(tgt)
                new = self._join_state(old, est)
                if new != old:
                    entry[tgt] = new
                    work.append(tgt)
        ex = getattr(body, "_ai_exit", {}).get(key, {})
        res = {"entry": entry, "body": body, "exit_vals": dict(ex)}
        self.memo[key] = res
        self._cur_key = prev_key
        return res

    @staticmethod
    def _join_state(a, b):
        if a is None:
            return b
        va, na = a
        vb, nb = b
        keys = set(va) | set(vb)
        v = {}
        for k in keys:
            if isinstance(k, tuple) and k and k[0] in ("cmpinfo", "lenof"):
                if va.get(k) == vb.get(k):
                    v[k] = va.get(k)
                continue
            x = va.get(k, T)
            y = vb.get(k, T)
            v[k] = join(x, y)
        return (v, na & nb)

    def _int_switch_source(self, body, place):
        """the integer variable a SwitchInt discriminant is a copy of: a local, or field i of a tuple local built from locals"""
        fields = [e for e in place.fields() if e != "*"]
        l = place.local
        if not fields:
            ty = body.locals[l]["s"]
            if not (is_unsigned(ty) or ty in ("i8", "i16", "i32", "i64", "isize")):
                return None
            return self._root(body, l)
        if len(fields) == 1 and fields[0][0] == "f" and fields[0][1].isdigit():
            d = self._defs(body).get(l, [])
            if len(d) == 1 and d[0][0] == "assign" and d[0][2].rv["k"] == "agg" and d[0][2].rv.get("agg") == "tuple":
                ops = d[0][2].rv["ops"]
                i = int(fields[0][1])
                if i < len(ops) and ops[i].place is not None and not [e for e in ops[i].place.fields() if e != "*"]:
                    src = self._root(body, ops[i].place.local)
                    ty = body.locals[src]["s"]
                    if is_unsigned(ty) or ty in ("i8", "i16", "i32", "i64", "isize"):
                        return src
        return None

    def _root(self, body, local, seen=None):
        """follow single-definition copy/ref temps to the variable they alias"""
        defs = self._defs(body)
        seen = seen or set()
        while local not in seen:
            seen.add(local)
            d = defs.get(local, [])
            if len(d) != 1 or d[0][0] != "assign":
                break
            s = d[0][2]
            if s.place.proj:
                break
            rv = s.rv
            if rv["k"] == "use" and rv["op"].place is not None and not [e for e in rv["op"].place.fields() if e != "*"]:
                local = rv["op"].place.local
            elif rv["k"] == "ref" and not [e for e in rv["place"].fields() if e != "*"]:
                local = rv["place"].local
            else:
                break
        return local

    def _defs(self, body):
        d = getattr(body, "_ai_defs", None)
        if d is None:
            d = {}
            for pos, s in body.stmts():
                if s.k == "assign":
                    d.setdefault(s.place.local, []).append(("assign", pos, s))
            for bi, t in body.calls():
                d.setdefault(t.dest.local, []).append(("call", (bi, 0), t))
            body._ai_defs = d
        return d

    def _op_class(self, body, op, vals):
        if op.kind == "const":
            return const_class(op)
        pl = op.place
        if pl is None:
            return T
        elems = [e for e in pl.fields() if e != "*"]
        # payload of Result/Option wrappers and plain copies keep the class of the base local;
        # tuple / struct fields are tracked under a synthetic key
        if not elems or all(e[0] == "dc" or (e[0] == "f" and e[1] == "0" and i > 0 and elems[i - 1][0] == "dc") for i, e in enumerate(elems)):
            c = vals.get(pl.local)
            if c is None:
                ty = body.locals[pl.local]["s"]
                return NN if is_unsigned(ty) else T
            return c
        key = (pl.local,) + tuple(e[1] if e[0] in ("f", "dc") else "?" for e in elems)
        c = vals.get(key)
        if c is not None:
            return c
        return T

    def _call_class(self, body, t, vals, nonempty, depth):
        c = t.callee
        ax = self.axioms(c)
        if ax is not None:
            return ax
        m = c.method
        if m == "from_residual":
            return None  # error propagation: no numeric payload (bottom)
        args = t.args
        rty = body.locals[t.dest.local]["s"] if t.dest.is_local() else ""
        if m in ("len", "count") and args:
            if args[0].place is not None:
                r = self._root(body, args[0].place.local)
                if r in nonempty and not [e for e in args[0].place.fields() if e != "*"]:
                    return P
            return NN
        if m in POS_FUNCS:
            return P
        if m in NONNEG_FUNCS:
            return NN
        if m in CONVERSIONS and args:
            return self._op_class(body, args[0], vals)
        if m in ("map_err", "or_else", "ok_or_else", "inspect", "inspect_err") and args and re.search(r"std::(result::Result|option::Option)", c.name or ""):
            return self._op_class(body, args[0], vals)  # only the error / absent alternative is touched
        if m == "map" and len(args) == 2 and re.search(r"std::(result::Result|option::Option)", c.name or "") and args[1].kind == "const" and "fn" in args[1].const:
            fm = re.sub(r"::<.*$", "", args[1].const["fn"]).rsplit("::", 1)[-1]
            if fm in CONVERSIONS:
                return self._op_class(body, args[0], vals)  # payload mapped through a numeric conversion function item
        if m == "max" and len(args) == 2:
            a = self._op_class(body, args[0], vals)
            b = self._op_class(body, args[1], vals)
            if P in (a, b):
                return P
            if a in (NN, Z) or b in (NN, Z):
                return NN
            return T
        if m == "min" and len(args) == 2:
            a = self._op_class(body, args[0], vals)
            b = self._op_class(body, args[1], vals)
            if a == P and b == P:
                return P
            if a in (P, NN, Z) and b in (P, NN, Z):
                return NN
            return T
        if m in ("sum",):
            return T
        if m in ("add", "sub", "mul", "div") and c.trait and c.trait.startswith("std::ops::") and len(args) == 2:
            a = self._op_class(body, args[0], vals)
            b = self._op_class(body, args[1], vals)
            return self._arith(m.capitalize(), a, b)
        # crate-local callee: summary
        tgt = None
        if c.res and c.res in self.prog.bodies:
            tgt = self.prog.bodies[c.res]
        if tgt is not None and tgt.kind in ("Fn", "AssocFn") and depth < self.max_depth:
            ac = {}
            for i, a in enumerate(args):
                ac[i + 1] = self._op_class(body, a, vals)
            return self.return_class(tgt, ac, depth + 1)
        if is_unsigned(rty):
            return NN
        return T

    def return_class(self, body, arg_classes, depth):
        res = self.analyse(body, arg_classes, depth)
        if res is None:
            return T
        out = None
        found = False
        for bi in body.exits:
            st = res.get("exit_vals", {}).get(bi)
            if st is None:
                continue
            found = True
            out = join(out, st)
        return out if found and out is not None else T

    @staticmethod
    def _arith(op, a, b):
        if a is None or b is None:
            return T
        if op in ("Add", "AddWithOverflow", "AddUnchecked"):
            if (a == P and b in (P, NN, Z)) or (b == P and a in (P, NN, Z)):
                return P
            if a in (NN, Z) and b in (NN, Z):
                return NN if (a, b) != (Z, Z) else Z
            return T
        if op in ("Mul", "MulWithOverflow", "MulUnchecked"):
            if a == Z or b == Z:
                return Z
            if a == P and b == P:
                return P
            if a in (P, NN) and b in (P, NN):
                return NN
            if a in (P, NZ) and b in (P, NZ):
                return NZ
            return T
        if op == "Div":
            if b in (P,):
                if a == P:
                    return P  # for floats; integer division may floor to 0 -> NN is the safe answer for ints
                if a in (NN, Z):
                    return NN
            if a in (P, NZ) and b in (P, NZ):
                return NZ
            return T
        if op in ("Sub", "SubWithOverflow", "SubUnchecked"):
            return T
        return T

    def _transfer_stmts(self, body, bi, st, upto=None):
        """abstractly execute the statements of block bi (the first `upto` of them); returns (vals, nonempty, cmp_info)"""
        vals = dict(st[0])
        nonempty = set(st[1])
        blk = body.blocks[bi]
        cmp_info = {}  # bool local -> ('cmp', op, L, R) | ('is_empty', root) | ('not', info)
        stmts = blk.stmts if upto is None else blk.stmts[:upto]
        for s in stmts:
            if s.k != "assign":
                continue
            rv = s.rv
            k = rv["k"]
            tgt_elems = [e for e in s.place.fields() if e != "*"]
            if tgt_elems:
                if k in ("use", "cast"):
                    key = (s.place.local,) + tuple(e[1] if e[0] in ("f", "dc") else "?" for e in tgt_elems)
                    vals[key] = self._op_class(body, rv["op"], vals)
                continue
            l = s.place.local
            lty = body.locals[l]["s"]
            c = T
            if k == "use":
                c = self._op_class(body, rv["op"], vals)
                if rv["op"].place is not None and not [e for e in rv["op"].place.fields() if e != "*"]:
                    src_l = rv["op"].place.local
                    for kk in list(vals):
                        if isinstance(kk, tuple) and kk and kk[0] == src_l:
                            vals[(l,) + kk[1:]] = vals[kk]
                    if src_l in cmp_info:
                        cmp_info[l] = cmp_info[src_l]
                    ci = vals.get(("cmpinfo", src_l))
                    if ci is not None:
                        vals[("cmpinfo", l)] = ci
                    lo = vals.get(("lenof", src_l))
                    if lo is not None:
                        vals[("lenof", l)] = lo
            elif k == "cast":
                kind = rv["kind"]
                c = self._op_class(body, rv["op"], vals)
                if "IntToInt" in kind:
                    f, t_ = rv["from_ty"], rv["ty"]
                    w = {"u8": 8, "u16": 16, "u32": 32, "u64": 64, "usize": 64, "u128": 128}
                    if is_unsigned(f) and is_unsigned(t_):
                        if w[t_] < w[f]:
                            c = NN if c in (P, NN, Z) else T  # narrowing may wrap to 0
                    else:
                        c = NN if is_unsigned(t_) else T
                elif "FloatToInt" in kind:
                    c = NN if is_unsigned(rv["ty"]) else T
                elif "IntToFloat" in kind or "FloatToFloat" in kind:
                    pass
                else:
                    c = T
            elif k == "bin":
                op = rv["op"]
                a = self._op_class(body, rv["l"], vals)
                b = self._op_class(body, rv["r"], vals)
                if op in ("Eq", "Ne", "Lt", "Le", "Gt", "Ge"):
                    cmp_info[l] = ("cmp", op, rv["l"], rv["r"])
                    c = T
                else:
                    c = self._arith(op, a, b)
                    if op == "Div" and not is_float(rv.get("lty", "")) and c == P:
                        c = NN
            elif k == "un":
                if rv["op"] == "Not":
                    src_l = rv["o"].place.local if rv["o"].place is not None else None
                    inf = cmp_info.get(src_l) or vals.get(("cmpinfo", src_l))
                    if inf is not None:
                        cmp_info[l] = ("not", inf)
                    c = T
                elif rv["op"] == "PtrMetadata":
                    c = NN
                    if rv["o"].place is not None:
                        r = self._root(body, rv["o"].place.local)
                        if r in nonempty:
                            c = P
                else:
                    c = T
            elif k == "agg":
                if rv["agg"] == "tuple":
                    for i, o in enumerate(rv["ops"]):
                        vals[(l, str(i))] = self._op_class(body, o, vals)
                elif rv["agg"] == "adt" and rv["variant"] in ("Some", "Ok", "Continue") and rv["ops"]:
                    c = self._op_class(body, rv["ops"][0], vals)
                elif rv["agg"] == "adt" and rv["variant"] in ("None", "Err", "Break") and rv.get("adt", "").startswith(("std::option::Option", "std::result::Result", "std::ops::ControlFlow")):
                    c = None  # carries no numeric payload: bottom
                else:
                    c = T
            elif k == "discr":
                c = T
            if c == T and is_unsigned(lty):
                c = NN
            vals[l] = c
        return vals, nonempty, cmp_info

    def _transfer_block(self, body, bi, st, depth):
        vals, nonempty, cmp_info = self._transfer_stmts(body, bi, st)
        blk = body.blocks[bi]
        t = blk.term
        edges = []
        if t.k == "call":
            if t.dest.is_local():
                c = self._call_class(body, t, vals, nonempty, depth)
                l = t.dest.local
                lty = body.locals[l]["s"]
                if c == T and is_unsigned(lty):
                    c = NN
                vals[l] = c
                m = t.callee.method
                vals.pop(("lenof", l), None)
                if m == "len" and t.args and t.args[0].place is not None and not [e for e in t.args[0].place.fields() if e != "*"]:
                    vals[("lenof", l)] = self._root(body, t.args[0].place.local)
                if m == "is_empty" and t.args and t.args[0].place is not None and not [e for e in t.args[0].place.fields() if e != "*"]:
                    vals[("cmpinfo", l)] = ("is_empty", self._root(body, t.args[0].place.local))
                elif m in ("eq", "ne", "lt", "gt", "le", "ge") and len(t.args) == 2 and t.callee.trait in ("std::cmp::PartialEq", "std::cmp::PartialOrd"):
                    vals[("cmpinfo", l)] = ("cmp", m.capitalize(), t.args[0], t.args[1])
                else:
                    vals.pop(("cmpinfo", l), None)
            if t.target is not None:
                edges.append((t.target, (vals, frozenset(nonempty))))
        elif t.k == "switch":
            d = t.discr.place.local if t.discr.place is not None else None
            info = cmp_info.get(d)
            if info is None and d is not None:
                info = vals.get(("cmpinfo", d))
                if info is None:
                    info = vals.get(("cmpinfo", self._root(body, d)))
            src = self._int_switch_source(body, t.discr.place) if info is None and t.discr.place is not None else None
            if src is not None:
                # `match n { 0 => .., _ => .. }` / `match (a, b) { (0, _) | (_, 0) => .., }`: a switch on the integer itself
                cur = vals.get(src)
                if cur is None:
                    cur = NN if is_unsigned(body.locals[src]["s"]) else T
                listed = [v for v, _ in t.targets]
                fkey = None
                fel = [e for e in t.discr.place.fields() if e != "*"]
                if fel:
                    fkey = (t.discr.place.local,) + tuple(e[1] if e[0] in ("f", "dc") else "?" for e in fel)
                for val, tgt in t.targets:
                    nv = dict(vals)
                    c2 = meet_zero(cur) if val == 0 else meet_nonzero(cur)
                    if c2 is None:
                        continue  # unreachable edge
                    nv[src] = c2
                    if fkey is not None:
                        nv[fkey] = c2
                    edges.append((tgt, (nv, frozenset(nonempty))))
                nv = dict(vals)
                if 0 in listed:
                    c2 = meet_nonzero(cur)
                    if c2 is not None:
                        nv[src] = c2
                        if fkey is not None:
                            nv[fkey] = c2
                        edges.append((t.otherwise, (nv, frozenset(nonempty))))
                else:
                    edges.append((t.otherwise, (nv, frozenset(nonempty))))
                return edges
            for val, tgt in t.targets:
                edges.append((tgt, self._refine(body, vals, nonempty, info, val)))
            listed = [v for v, _ in t.targets]
            edges.append((t.otherwise, self._refine(body, vals, nonempty, info, ("other", listed))))
        elif t.k in ("goto", "drop", "assert"):
            if t.target is not None:
                edges.append((t.target, (vals, frozenset(nonempty))))
        elif t.k == "return":
            ex = getattr(body, "_ai_exit", None)
            if ex is None:
                ex = {}
                body._ai_exit = ex
            key = self._cur_key
            ex.setdefault(key, {})[bi] = vals.get(0, T)
        return edges

    def _refine(self, body, vals, nonempty, info, val):
        vals = dict(vals)
        nonempty = set(nonempty)
        if info is None:
            return (vals, frozenset(nonempty))
        truth = None
        if isinstance(val, tuple):
            listed = val[1]
            if listed == [0]:
                truth = True
            elif listed == [1]:
                truth = False
        else:
            truth = bool(val) if val in (0, 1) else None
        neg = False
        while info and info[0] == "not":
            neg = not neg
            info = info[1]
        if truth is None:
            return (vals, frozenset(nonempty))
        if neg:
            truth = not truth
        if info[0] == "is_empty":
            if truth is False:
                nonempty.add(info[1])
            return (vals, frozenset(nonempty))
        if info[0] == "cmp":
            _, op, lo, ro = info
            x, cst = None, None
            if ro.kind == "const" and lo.place is not None:
                x, cst = lo, ro
            elif lo.kind == "const" and ro.place is not None:
                x, cst = ro, lo
                op = {"Lt": "Gt", "Gt": "Lt", "Le": "Ge", "Ge": "Le"}.get(op, op)
            if x is None or [e for e in x.place.fields() if e != "*"]:
                return (vals, frozenset(nonempty))
            cc = const_class(cst)
            if cc == T:
                return (vals, frozenset(nonempty))
            if not truth:
                op = {"Eq": "Ne", "Ne": "Eq", "Lt": "Ge", "Ge": "Lt", "Gt": "Le", "Le": "Gt"}[op]
            targets = {x.place.local, self._root(body, x.place.local)}
            for l in targets:
                cur = vals.get(l)
                if cur is None:
                    cur = NN if is_unsigned(body.locals[l]["s"]) else T
                new = cur
                if cc == Z:
                    if op == "Eq":
                        new = meet_zero(cur)
                    elif op == "Ne":
                        new = meet_nonzero(cur)
                    elif op == "Gt":
                        new = None if cur == Z else P
                    elif op == "Ge":
                        new = P if cur in (P, NZ) else (cur if cur == Z else NN)
                    elif op == "Lt":
                        new = None if cur in (Z, P, NN) else NZ
                    elif op == "Le":
                        new = None if cur == P else (Z if cur in (NN, Z) else cur)
                elif cc == P:
                    if op in ("Eq", "Ge", "Gt"):
                        new = None if cur == Z else P
                if new is None:
                    return None  # infeasible edge
                vals[l] = new
                if new in (P, NZ) and vals.get(("lenof", l)) is not None:
                    nonempty.add(vals[("lenof", l)])
            return (vals, frozenset(nonempty))
        return (vals, frozenset(nonempty))

    # ----------------------------------------------------------------------------
    def class_at(self, body, pos, op, arg_classes=None):
        """class of operand `op` immediately before position pos=(bb, idx); None if pos is unreachable
        in the abstract semantics"""
        res = self.analyse(body, arg_classes)
        if res is None:
            return T
        st = res["entry"].get(pos[0])
        if st is None:
            return None
        vals, nonempty, _ = self._transfer_stmts(body, pos[0], st, upto=pos[1])
        return self._op_class(body, op, vals)

    def class_at_pathwise(self, body, pos, op, arg_classes=None, limit=512):
        """like class_at, but evaluated separately on every path from the entry to `pos` of a LOOP-FREE body and joined afterwards: facts that the
        fixpoint loses at a join (`!(x == 0 && y == 0)`: on each path one of the two is known positive) survive.  None = not applicable
        (loop, too many paths)."""
        if body.natural_loops():
            return None
        init_vals = {}
        for l in range(1, body.nargs + 1):
            ty = body.locals[l]["s"]
            c = NN if is_unsigned(ty) else T
            if arg_classes and l in arg_classes and arg_classes[l] not in (None, T):
                c = arg_classes[l]
            init_vals[l] = c
        prev_key = getattr(self, "_cur_key", None)
        self._cur_key = (body.id, tuple(sorted((arg_classes or {}).items())))
        out = None
        seen_any = False
        budget = [limit]
        stack = [(0, (init_vals, frozenset()))]
        try:
            while stack:
                budget[0] -= 1
                if budget[0] < 0:
                    return None
                bi, st = stack.pop()
                if bi == pos[0]:
                    vals, nonempty, _ = self._transfer_stmts(body, bi, st, upto=pos[1])
                    out = join(out, self._op_class(body, op, vals)) if seen_any else self._op_class(body, op, vals)
                    seen_any = True
                    continue
                for tgt, est in self._transfer_block(body, bi, (dict(st[0]), st[1]), 0):
                    if est is not None:
                        stack.append((tgt, (dict(est[0]), est[1])))
        finally:
            self._cur_key = prev_key
        return out if seen_any else None

    def nonempty_at(self, body, pos, local, arg_classes=None):
        res = self.analyse(body, arg_classes)
        if res is None:
            return False
        st = res["entry"].get(pos[0])
        if st is None:
            return True
        return self._root(body, local) in st[1]
