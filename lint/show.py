"""debug helper: dump bodies matching a regex, optionally provenance of a local"""
import sys, os
sys.path.insert(0, os.path.dirname(os.path.abspath(__file__)))
import build, facts, prov

def main():
    root = os.environ.get("HPO_REPO", "/repo")
    f = build.ensure_facts(root)
    p = facts.load(f["lib"])
    rx = sys.argv[1]
    bs = p.find(rx, kinds=("Fn", "AssocFn", "Closure", "Promoted", "Const"))
    for b in bs:
        print(b.dump())
        if len(sys.argv) > 2:
            pv = prov.Prov(p)
            for l in sys.argv[2:]:
                print("  prov(_%s):" % l)
                for a in sorted(pv.of_local(b, int(l)), key=str):
                    print("     ", a)
    if not bs:
        print("no body matches")
main()
