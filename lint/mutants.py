"""Checker-sensitivity corpus (thorough tier): seeded edits of a scratch copy of /repo.

A `break` mutant still type-checks but violates the property's clause: the check must report it and the
report must match `expect` (a regex over the violation keys).  A `keep` mutant is a behaviour-preserving
refactor: the check must stay silent.  Only `cargo check` (through the fact extractor) is run on the
scratch copy - no hpo code is executed.  Scratch copies live under a mkdtemp outside /repo and /verif and
are removed immediately.

Specs: /verif/mutants/<id>.py  with  MUTANTS = [ {name, kind, edits: [(file, old, new), ...], expect, why}, ... ]
Edits are exact-substring replacements (must match exactly once) so that they survive line shifts.
"""
import importlib.util
import os
import random
import re
import shutil
import sys
import tempfile

HERE = os.path.dirname(os.path.abspath(__file__))
VERIF = os.path.dirname(HERE)
sys.path.insert(0, HERE)
import build  # noqa: E402
import core  # noqa: E402
import facts  # noqa: E402

COPY = ["src", "Cargo.toml", "Cargo.lock", "README.md", "benches", "examples", "clippy.toml"]


def load_specs(pid):
    p = os.path.join(VERIF, "mutants", pid + ".py")
    if not os.path.exists(p):
        return []
    spec = importlib.util.spec_from_file_location("mutants_" + pid, p)
    m = importlib.util.module_from_spec(spec)
    spec.loader.exec_module(m)
    return list(m.MUTANTS)


def make_scratch(repo):
    d = tempfile.mkdtemp(prefix="hpo-mut-")
    for c in COPY:
        s = os.path.join(repo, c)
        if os.path.isdir(s):
            shutil.copytree(s, os.path.join(d, c))
        elif os.path.exists(s):
            shutil.copy2(s, os.path.join(d, c))
    return d


class EditError(Exception):
    pass


def apply_edits(root, edits):
    for fn, old, new in edits:
        p = os.path.join(root, fn)
        with open(p) as f:
            s = f.read()
        n = s.count(old)
        if n != 1:
            raise EditError("edit of %s matches %d times (expected 1): %r" % (fn, n, old[:60]))
        with open(p, "w") as f:
            f.write(s.replace(old, new))


def run_on(pid, root, with_witness=False):
    """run the quick rules of property pid on the tree at root; returns (violations, undecided, error)"""
    import importlib
    mod = importlib.import_module("props." + pid)
    ck = core.Check(pid, "quick", 0, claim="", not_decided="", write_evidence=False)
    try:
        f = build.ensure_facts(root)
    except build.BuildError as e:
        return None, None, "does not type-check: " + str(e)[-600:]
    prog = facts.load(f["lib"])
    mod.run(ck, prog, {"tier": "quick", "seed": 0, "root": root, "facts": f, "mutant": True})
    core.apply_private_deps(ck, prog)
    if with_witness:
        import witness
        witness.run(ck, pid, {"root": root})
    known = {(k["property"], k["key"]) for k in core.load_known()["findings"]}
    viol = [o for o in ck.obligations if o["ok"] is False and (pid, o["key"]) not in known]
    und = [o for o in ck.obligations if o["ok"] is None]
    shutil.rmtree(f["dir"], ignore_errors=True)  # do not let scratch facts pile up in the cache
    return viol, und, None


def run(ck, pid, ctx):
    specs = load_specs(pid)
    if not specs:
        ck.note("no mutant corpus for " + pid)
        return
    rnd = random.Random(ctx.get("seed", 0))
    order = list(specs)
    rnd.shuffle(order)
    only = os.environ.get("HPO_MUTANT")
    killed = silent = skipped = 0
    repo = ctx.get("root") or build.REPO
    for m in order:
        if only and not re.search(only, m["name"]):
            continue
        d = make_scratch(repo)
        try:
            try:
                if m.get("patch"):
                    # a stored patch of /verif/seeded or /verif/refactors (written against the reviewed tree) as the mutant
                    import subprocess
                    r_ = subprocess.run(["patch", "-p1", "-s", "-f", "-i", os.path.join(VERIF, m["patch"])], cwd=d, stdout=subprocess.PIPE, stderr=subprocess.STDOUT, text=True)
                    if r_.returncode != 0:
                        raise EditError("stored patch %s does not apply: %s" % (m["patch"], r_.stdout[-200:]))
                apply_edits(d, m.get("edits", []))
            except EditError as e:
                # the tree under analysis differs from the one the corpus was written against at this spot: the mutant cannot be built, which says
                # nothing about the property (an alarm here would be an alarm about the corpus, not about the code)
                skipped += 1
                ck.undecided("MUTANT", m["name"], "corpus entry %s does not apply to this tree (%s): skipped" % (m["name"], str(e)[:160]))
                continue
            viol, und, err = run_on(pid, d, with_witness=bool(m.get("witness")))
        finally:
            shutil.rmtree(d, ignore_errors=True)
        if err:
            ck.violation("MUTANT", m["name"], "checker-selftest: mutant %s %s" % (m["name"], err))
            continue
        keys = [v["key"] for v in viol]
        if m["kind"] == "break":
            hit = [k for k in keys if re.search(m["expect"], k)]
            ok = bool(hit)
            if ok:
                killed += 1
            ck.ob("MUTANT", m["name"], ok,
                  ("seeded defect `%s` (%s) is reported: %s" % (m["name"], m.get("why", ""), hit[0])) if ok
                  else ("checker-selftest: seeded defect `%s` (%s) is NOT reported (violations: %s)" % (m["name"], m.get("why", ""), keys[:3])))
        else:
            ok = not keys
            if ok:
                silent += 1
            ck.ob("MUTANT", m["name"], ok,
                  ("behaviour-preserving refactor `%s` stays silent" % m["name"]) if ok
                  else ("checker-selftest: FALSE ALARM on behaviour-preserving refactor `%s`: %s" % (m["name"], keys[:3])))
    ck.extra["mutants_killed"] = killed
    ck.extra["refactors_silent"] = silent
    ck.extra["mutants_skipped_not_applicable"] = skipped


if __name__ == "__main__":
    # usage: mutants.py Cxx [name-regex]   -- run the corpus of one property and print the outcome
    pid = sys.argv[1]
    if len(sys.argv) > 2:
        os.environ["HPO_MUTANT"] = sys.argv[2]
    ck = core.Check(pid, "thorough", 0, write_evidence=False)
    run(ck, pid, {"seed": 0, "root": os.environ.get("HPO_ROOT")})
    for o in ck.obligations:
        print("%-5s %s | %s" % (o["ok"], o["key"], o["msg"][:230]))
