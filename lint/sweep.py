"""Mutation sweep (development tool, not part of any registered check; DESIGN 10.10).

Small, mechanical, single-token edits of /repo's library source - a comparison made (non-)strict, `==` against `!=`, `&&` against `||`, an
off-by-one in a `+ 1` / `- 1`, `continue` against `break`, `min` against `max`, `true` against `false` - are the changes a maintainer makes by
accident.  For each one that still BUILDS and still PASSES the pinned suite (the 84 unit tests) the quick tier of all nineteen checks is run on the
mutated tree.  The sweep answers a question the hand-written corpus and the sub-agents' changes cannot: of ALL edits of this kind that the suite lets
through, how many do the checks report?  The survivors of both are listed for triage (equivalent edit / outside every property / a gap).

  python3 lint/sweep.py generate                 -> /verif/sweep/mutants.json
  python3 lint/sweep.py run [--jobs N] [--only REGEX]   -> /verif/sweep/results.jsonl (appends; finished mutants are skipped)
  python3 lint/sweep.py report                   -> /verif/sweep/REPORT.md

The mutated trees live under /tmp/hpo-sweep/w<i> (one per worker, with its own cargo target directory) and are removed at the end of `run`."""
import json
import multiprocessing
import os
import re
import shutil
import subprocess
import sys
import time

HERE = os.path.dirname(os.path.abspath(__file__))
VERIF = os.path.dirname(HERE)
OUT = os.path.join(VERIF, "sweep")
WORK = "/tmp/hpo-sweep"
PROPS = "C01 C02 C03 C04 C05 C06 C07 C08 C09 C10 C11 C12 C13 C14 C15 C17 C18 C19 C20".split()

OPS = [
    (r"(?<=[\w\)\]\}\"' ]) < (?=[\w\(\[\&\*\-\"' ])", " <= ", "lt->le"),
    (r"(?<=[\w\)\]\}\"' ]) <= (?=[\w\(\[\&\*\-\"' ])", " < ", "le->lt"),
    (r"(?<=[\w\)\]\}\"' ]) > (?=[\w\(\[\&\*\-\"' ])", " >= ", "gt->ge"),
    (r"(?<=[\w\)\]\}\"' ]) >= (?=[\w\(\[\&\*\-\"' ])", " > ", "ge->gt"),
    (r" == ", " != ", "eq->ne"),
    (r" != ", " == ", "ne->eq"),
    (r" && ", " || ", "and->or"),
    (r" \|\| ", " && ", "or->and"),
    (r" \+ 1\b(?!\.)", " + 0", "plus1->plus0"),
    (r" - 1\b(?!\.)", " - 0", "minus1->minus0"),
    (r" \+= 1;", " += 2;", "inc1->inc2"),
    (r"\bcontinue;", "break;", "continue->break"),
    (r"\bbreak;", "continue;", "break->continue"),
    (r"\.min\(", ".max(", "min->max"),
    (r"\.max\(", ".min(", "max->min"),
    (r"\btrue\b", "false", "true->false"),
    (r"\bfalse\b", "true", "false->true"),
    (r"\.is_empty\(\)", ".is_empty() == false", "is_empty->negated"),
    (r"\.is_some\(\)", ".is_none()", "is_some->is_none"),
    (r"\.is_none\(\)", ".is_some()", "is_none->is_some"),
    (r"(?<=[\w\)\]\}\"' ]) < (?=[\w\(\[\&\*\-\"' ])", " > ", "lt->gt"),
    (r"(?<=[\w\)\]\}\"' ]) > (?=[\w\(\[\&\*\-\"' ])", " < ", "gt->lt"),
    (r"(?<=[A-Za-z_\)\]])\.0\b(?!\.\d)", ".1", "field0->field1"),
    (r"(?<=[A-Za-z_\)\]])\.1\b(?!\.\d)", ".0", "field1->field0"),
    (r"(?<=[\+\-\*\[\(] )([2-9]|1[0-9])\b(?![\.\d_a-z])", None, "literal+1"),
    (r"(?<![\w\.])([2-9]|1[0-9])(?= [\+\-] )", None, "literal+1"),
    (r"\)\?;\s*$", ").ok();", "try->ok"),
    (r"omim_disease", "orpha_disease", "omim->orpha"),
    (r"orpha_disease", "omim_disease", "orpha->omim"),
    (r"\bOmim(?=[A-Z])", "Orpha", "Omim->Orpha"),
    (r"\bOrpha(?=[A-Z])", "Omim", "Orpha->Omim"),
    (r"\.first\(\)", ".last()", "first->last"),
    (r"\.last\(\)", ".first()", "last->first"),
    (r"\blhs\b", "rhs", "lhs->rhs"),
    (r"\brhs\b", "lhs", "rhs->lhs"),
    (r"\.all_parents\(\)", ".parents()", "all_parents->parents"),
    (r"\.all_parent_ids\(\)", ".parent_ids()", "all_parent_ids->parent_ids"),
    # second pass
    (r"(?<=[\w\)\]]) \+ (?=[\w\(\&\*])", " - ", "plus->minus"),
    (r"(?<=[\w\)\]]) - (?=[\w\(\&\*])", " + ", "minus->plus"),
    (r"(?<=[\w\)\]]) \* (?=[\w\(])", " / ", "mul->div"),
    (r"(?<=[\w\)\]]) / (?=[\w\(])", " * ", "div->mul"),
    (r"(?<=[\w\)\]]) & (?=[\w\(\&\*])", " | ", "bitand->bitor"),
    (r"(?<=[\w\)\]]) \| (?=[\w\(\&\*])", " & ", "bitor->bitand"),
    (r"\((\w+), (\w+)\)", "SWAP", "args-swapped"),
    (r"^(\s*)[A-Za-z_][\w\.]*(?:\(\))?(?:\.[\w]+(?:\(\))?)*\.\w+\([^;]*\);\s*$", "DELETE", "statement-deleted"),
    (r"\.iter\(\)", ".iter().skip(1)", "iter->skip1"),
    (r"\b0\.0\b", "1.0", "0.0->1.0"),
    (r"\b1\.0\b", "0.0", "1.0->0.0"),
    (r"\b2\.0\b", "1.0", "2.0->1.0"),
]


def sh(cmd, cwd=None, timeout=900, env=None):
    try:
        p = subprocess.run(cmd, shell=isinstance(cmd, str), cwd=cwd, stdout=subprocess.PIPE, stderr=subprocess.STDOUT, text=True, timeout=timeout, env=env)
        return p.returncode, p.stdout
    except subprocess.TimeoutExpired as e:
        return 124, (e.stdout or "") if isinstance(e.stdout, str) else "timeout"


def library_lines(path):
    """(line number, text) of the non-test, non-comment code lines of a source file (everything from the first `#[cfg(test)]` on is test code)"""
    out = []
    in_doc_block = False
    with open(path) as f:
        for i, line in enumerate(f, 1):
            st = line.strip()
            if st.startswith("#[cfg(test)]"):
                break
            if st.startswith("//") or st.startswith("#[") or st.startswith("#!["):
                continue
            if "trace!(" in st or "debug!(" in st or "warn!(" in st or "error!(" in st or "info!(" in st:
                continue
            out.append((i, line))
    return out


def generate():
    os.makedirs(OUT, exist_ok=True)
    head = subprocess.check_output(["git", "-C", "/repo", "rev-parse", "HEAD"], text=True).strip()
    tmp = os.path.join(WORK, "gen")
    shutil.rmtree(tmp, ignore_errors=True)
    os.makedirs(tmp)
    subprocess.run("git -C /repo archive HEAD | tar -x -C %s" % tmp, shell=True, check=True)
    muts = []
    for dp, dns, fns in os.walk(os.path.join(tmp, "src")):
        for fn in sorted(fns):
            if not fn.endswith(".rs"):
                continue
            p = os.path.join(dp, fn)
            rel = os.path.relpath(p, tmp)
            for ln, text in library_lines(p):
                code = text.split("//")[0]
                for rx, new, name in OPS:
                    for m in re.finditer(rx, code):
                        # not inside a string literal (crude: an even number of quotes in front)
                        if code[:m.start()].count('"') % 2 == 1:
                            continue
                        if "fn " in code and name in ("lhs->rhs", "rhs->lhs", "omim->orpha", "orpha->omim", "Omim->Orpha", "Orpha->Omim"):
                            continue  # a signature line: renaming a parameter / function is not a mutation
                        if name in ("plus->minus", "minus->plus", "mul->div", "div->mul", "bitand->bitor", "bitor->bitand", "args-swapped") and re.search(r"\bfn |\bwhere\b|\bimpl\b|\bdyn\b|^\s*(pub )?(type|use|struct|enum|trait) |=> \(|let \(|\|\(|for \(", code):
                            continue  # signatures / bounds / patterns are not expressions
                        if new == "SWAP":
                            if m.group(1) == m.group(2) or m.group(1) in ("self",) or not re.search(r"\w\($", code[:m.start() + 1]):
                                continue
                            new_, st_, en_ = "(%s, %s)" % (m.group(2), m.group(1)), m.start(), m.end()
                        elif new == "DELETE":
                            new_, st_, en_ = m.group(1) + "();", m.start(), len(code.rstrip("\n"))
                        else:
                            new_ = new if new is not None else str(int(m.group(1)) + 1)
                            st_, en_ = (m.start(1), m.end(1)) if new is None else (m.start(), m.end())
                        muts.append({"id": "%s:%d:%d:%s" % (rel, ln, st_, name), "file": rel, "line": ln, "col": st_, "end": en_, "new": new_, "op": name, "text": text.rstrip("\n")})
    shutil.rmtree(tmp, ignore_errors=True)
    with open(os.path.join(OUT, "mutants.json"), "w") as f:
        json.dump({"head": head, "mutants": muts}, f, indent=0)
    print("%d mutants over %d files" % (len(muts), len({m["file"] for m in muts})))


def _worker(args):
    idx, muts = args
    wd = os.path.join(WORK, "w%d" % idx)
    shutil.rmtree(wd, ignore_errors=True)
    os.makedirs(wd)
    subprocess.run("git -C /repo archive HEAD | tar -x -C %s" % wd, shell=True, check=True)
    env = dict(os.environ, CARGO_NET_OFFLINE="true", CARGO_TARGET_DIR=os.path.join(wd, "target"), RUSTFLAGS="-Awarnings")
    # warm build
    sh("cargo test --offline --lib --no-run -q", cwd=wd, env=env, timeout=1800)
    res_path = os.path.join(OUT, "results.jsonl")
    for m in muts:
        p = os.path.join(wd, m["file"])
        with open(p) as f:
            lines = f.readlines()
        orig = lines[m["line"] - 1]
        if orig.rstrip("\n") != m["text"]:
            continue
        lines[m["line"] - 1] = orig[:m["col"]] + m["new"] + orig[m["end"]:]
        with open(p, "w") as f:
            f.writelines(lines)
        t0 = time.time()
        rec = {"id": m["id"], "op": m["op"], "file": m["file"], "line": m["line"], "was": m["text"].strip(), "now": lines[m["line"] - 1].strip()}
        rc, out = sh("cargo test --offline --lib --no-run -q", cwd=wd, env=env, timeout=900)
        if rc != 0:
            rec["status"] = "does-not-build"
        else:
            rc, out = sh("cargo test --offline --lib -q -- --test-threads 4", cwd=wd, env=env, timeout=600)
            if rc != 0:
                failed = re.findall(r"^test (\S+) \.\.\. FAILED", out, re.M) or re.findall(r"^    (\S+)$", out, re.M)
                rec["status"] = "killed-by-suite"
                rec["tests"] = failed[:3] if rc != 124 else ["timeout"]
            else:
                rec["status"] = "passes-suite"
                caught = {}
                for pid in PROPS:
                    rc2, out2 = sh([os.path.join(VERIF, "bin", "check"), pid, "--tier", "quick", "--no-evidence", "--root", wd], cwd=VERIF, timeout=600)
                    if rc2 != 0:
                        rep = [l for l in out2.splitlines() if l.startswith(pid + " ") and "obligations=" not in l]
                        caught[pid] = rep[0][:300] if rep else "rc=%d" % rc2
                rec["reported_by"] = caught
        rec["secs"] = round(time.time() - t0, 1)
        with open(p, "w") as f:
            lines[m["line"] - 1] = orig
            f.writelines(lines)
        with open(res_path, "a") as f:
            f.write(json.dumps(rec) + "\n")
    shutil.rmtree(wd, ignore_errors=True)
    return idx


def run(jobs, only):
    with open(os.path.join(OUT, "mutants.json")) as f:
        muts = json.load(f)["mutants"]
    done = set()
    rp = os.path.join(OUT, "results.jsonl")
    if os.path.exists(rp):
        with open(rp) as f:
            for l in f:
                try:
                    done.add(json.loads(l)["id"])
                except ValueError:
                    pass
    todo = [m for m in muts if m["id"] not in done and (not only or re.search(only, m["id"]))]
    print("%d to run (%d done)" % (len(todo), len(done)))
    chunks = [(i, todo[i::jobs]) for i in range(jobs)]
    with multiprocessing.Pool(jobs) as pool:
        for i in pool.imap_unordered(_worker, chunks):
            print("worker", i, "finished")
    shutil.rmtree(WORK, ignore_errors=True)


def _recheck(args):
    idx, muts, recs = args
    wd = os.path.join(WORK + "-re", "r%d" % idx)
    shutil.rmtree(wd, ignore_errors=True)
    os.makedirs(wd)
    subprocess.run("git -C /repo archive HEAD | tar -x -C %s" % wd, shell=True, check=True)
    out = []
    for m in muts:
        p = os.path.join(wd, m["file"])
        with open(p) as f:
            lines = f.readlines()
        orig = lines[m["line"] - 1]
        lines[m["line"] - 1] = orig[:m["col"]] + m["new"] + orig[m["end"]:]
        with open(p, "w") as f:
            f.writelines(lines)
        caught = {}
        for pid in PROPS:
            rc2, out2 = sh([os.path.join(VERIF, "bin", "check"), pid, "--tier", "quick", "--no-evidence", "--root", wd], cwd=VERIF, timeout=600)
            if rc2 != 0:
                rep = [l for l in out2.splitlines() if l.startswith(pid + " ") and "obligations=" not in l]
                caught[pid] = rep[0][:300] if rep else "rc=%d" % rc2
        rec = dict(recs[m["id"]])
        rec["reported_by"] = caught
        rec["rechecked"] = True
        out.append(rec)
        lines[m["line"] - 1] = orig
        with open(p, "w") as f:
            f.writelines(lines)
    shutil.rmtree(wd, ignore_errors=True)
    return out


def recheck(jobs, all_passing=False):
    """run the checks again (no cargo test) on the mutants that pass the suite and were silent (or, with --all, on every mutant that passes the suite)"""
    with open(os.path.join(OUT, "mutants.json")) as f:
        muts = {m["id"]: m for m in json.load(f)["mutants"]}
    recs = {}
    with open(os.path.join(OUT, "results.jsonl")) as f:
        for l in f:
            try:
                r = json.loads(l)
                recs[r["id"]] = r
            except ValueError:
                pass
    todo = [muts[i] for i, r in recs.items() if r["status"] == "passes-suite" and (all_passing or not r.get("reported_by")) and i in muts]
    print("%d to re-check" % len(todo))
    chunks = [(i, todo[i::jobs], recs) for i in range(jobs)]
    with multiprocessing.Pool(jobs) as pool, open(os.path.join(OUT, "results.jsonl"), "a") as f:
        for outs in pool.imap_unordered(_recheck, chunks):
            for rec in outs:
                f.write(json.dumps(rec) + "\n")
                f.flush()
    shutil.rmtree(WORK + "-re", ignore_errors=True)


def report():
    recs = {}
    with open(os.path.join(OUT, "results.jsonl")) as f:
        for l in f:
            try:
                r = json.loads(l)
                recs[r["id"]] = r
            except ValueError:
                pass
    rs = list(recs.values())
    by = {}
    for r in rs:
        by.setdefault(r["status"], []).append(r)
    passed = by.get("passes-suite", [])
    rep = [r for r in passed if r.get("reported_by")]
    sil = [r for r in passed if not r.get("reported_by")]
    tri = {}
    tp = os.path.join(OUT, "triage.json")
    if os.path.exists(tp):
        with open(tp) as f:
            tri = json.load(f)
    lines = ["# Mutation sweep over /repo's library source", "",
             "Generated by `python3 lint/sweep.py report` from `sweep/results.jsonl` (see the head of `lint/sweep.py` for what the sweep is).", "",
             "| | mutants |", "|---|---|",
             "| generated and run | %d |" % len(rs),
             "| do not build | %d |" % len(by.get("does-not-build", [])),
             "| killed by the pinned suite (84 unit tests) | %d |" % len(by.get("killed-by-suite", [])),
             "| **pass the pinned suite** | **%d** |" % len(passed),
             "| ... of these reported by at least one check | %d |" % len(rep),
             "| ... silent | %d |" % len(sil), ""]
    per = {}
    for r in rep:
        for p in r["reported_by"]:
            per[p] = per.get(p, 0) + 1
    lines += ["Reports per check (a mutant can be reported by several): " + ", ".join("%s %d" % kv for kv in sorted(per.items())), ""]
    cats = {}
    for r in sil:
        c = tri.get(r["id"], {}).get("class", "not triaged")
        cats.setdefault(c, []).append(r)
    lines += ["## Silent mutants that pass the suite, by triage class", "", "| class | count |", "|---|---|"] + ["| %s | %d |" % (c, len(v)) for c, v in sorted(cats.items())] + [""]
    for c, v in sorted(cats.items()):
        lines += ["### %s" % c, "", "| mutant | was -> now | note |", "|---|---|---|"]
        for r in sorted(v, key=lambda x: x["id"]):
            lines.append("| `%s:%d` %s | `%s` -> `%s` | %s |" % (r["file"], r["line"], r["op"], r["was"].replace("|", "\\|")[:90], r["now"].replace("|", "\\|")[:90], tri.get(r["id"], {}).get("note", "").replace("|", "/")))
        lines.append("")
    with open(os.path.join(OUT, "REPORT.md"), "w") as f:
        f.write("\n".join(lines) + "\n")
    print("\n".join(lines[:16]))


if __name__ == "__main__":
    cmd = sys.argv[1] if len(sys.argv) > 1 else ""
    if cmd == "generate":
        generate()
    elif cmd == "run":
        jobs = int(sys.argv[sys.argv.index("--jobs") + 1]) if "--jobs" in sys.argv else 8
        only = sys.argv[sys.argv.index("--only") + 1] if "--only" in sys.argv else None
        run(jobs, only)
    elif cmd == "recheck":
        recheck(int(sys.argv[sys.argv.index("--jobs") + 1]) if "--jobs" in sys.argv else 8, "--all" in sys.argv)
    elif cmd == "report":
        report()
    else:
        print(__doc__)
