"""generates /verif/MANIFEST.json from the property modules that exist"""
import importlib
import json
import os
import sys

HERE = os.path.dirname(os.path.abspath(__file__))
sys.path.insert(0, HERE)
VERIF = os.path.dirname(HERE)

TECH = {
    "C01": "static analysis: MIR pairing/phase/field rules + compile-fail witnesses",
    "C02": "static analysis: kind non-interference, pairing and dominance rules over MIR",
    "C03": "static analysis: role/kind provenance at IC contract sites + sign abstract interpretation",
    "C04": "static analysis: sign/zero abstract interpretation of float divisions, dispatch and selection rules",
    "C05": "static analysis: dominance of the empty-matrix guard, role provenance of divisors, selection direction",
    "C06": "static analysis: role/dimension provenance at hypergeometric contract sites, kind rules",
    "C07": "static analysis: taint (str truncation), constant-table agreement, codec field coverage",
    "C08": "static analysis: dominance of length-equality guards, version dispatch tables",
    "C09": "static analysis: kind/prefix/variant agreement, dominance of NOT filter, column role provenance",
    "C11": "static analysis: must-pass-through of the min reduction (no ancestor-closure shortcut), selection direction, role provenance",
    "C10": "static analysis: call-graph panic-freedom scan, slot-constant tables, zero-test dominance",
    "C12": "static analysis: taint of unchecked appends, search-arm dominance/polarity, merge-arm dispatch",
    "C13": "static analysis: sibling kernel agreement, filter polarity, field rules",
    "C14": "static analysis: sibling agreement of the inclusive modifier predicate, kind and role rules",
    "C15": "static analysis: validate-before-mutate dominance (MIR) + compile-fail typestate witnesses",
    "C17": "static analysis: selection direction (min/max) of MIR comparisons",
    "C18": "static analysis: role provenance old/new, decision coverage",
    "C19": "static analysis: role/selection/constant rules on the default category sets",
    "C20": "static analysis: call-graph panic-freedom scan + constant-table agreement",
}
NA = {
    "C16": "order independence is a metamorphic relation over permutations of runtime inputs (memoised recursion, early exits, seeded hash maps); every structural necessary condition is already claimed under C01/C02/C12 (DESIGN §6)",
}
ALL = ["C%02d" % i for i in range(1, 21)]


def main():
    checks = []
    na = []
    for pid in ALL:
        if pid in NA:
            na.append({"property_id": pid, "reason": NA[pid]})
            continue
        try:
            mod = importlib.import_module("props." + pid)
        except ImportError:
            na.append({"property_id": pid, "reason": "not claimed yet: the static rules for this property are not built in this revision (planned, see DESIGN §4)"})
            continue
        checks.append({
            "property_id": pid,
            "quick_cmd": "bin/check %s --tier quick" % pid,
            "thorough_cmd": "bin/check %s --tier thorough" % pid,
            "evidence_file": "/verif/evidence/%s.json" % pid,
            "replay_cmd_template": "bin/check --replay {path}",
            "engine": "hpo-facts+lint",
            "level_claimed": {
                "category": "other",
                "text": "Static analysis of the resolved program decides a named clause, a necessary condition of the property, on every path / call site: "
                        + mod.CLAIM + " It does NOT decide the input-quantified behaviour: " + mod.NOT_DECIDED,
                "design_ref": "DESIGN.md §4 " + pid,
            },
            "level_note": "Trusted base: rustc nightly MIR construction and callee resolution; the hpo-facts extractor; the std/smallvec/hashbrown/tracing "
                          "summary tables (DESIGN §3.0); provenance is a may-analysis, rules are one-sided (required ⊆ / forbidden ∩ = ∅); "
                          "exemptions are per symbol with a reason and printed in the evidence.",
            "technique": TECH.get(pid, "static analysis over rustc MIR facts"),
        })
    man = {
        "version": 1,
        "setup_cmd": "cd /verif/driver && CARGO_NET_OFFLINE=true cargo build --release --offline && cd /verif && python3 lint/build.py >/dev/null",
        "hooks": {
            "guard": "hpo_verif",
            "enable": "none needed: the checks read rustc's MIR of the unmodified sources (no hooks or instrumentation in /repo)",
            "baseline_off_cmd": "cd /repo && cargo test --workspace --no-fail-fast --offline",
            "source_commits": [],
            "add_only": True,
        },
        "engines": [
            {"name": "hpo-facts+lint", "path": "/verif/driver + /verif/lint", "serves_properties": [c["property_id"] for c in checks],
             "kind_free_text": "rustc_private driver dumping MIR facts (resolved callees, field names, constants) as JSON under `cargo +nightly check`; Python rule engines (CFG, dominators, provenance, abstract interpretation) decide the rules"},
            {"name": "witness", "path": "/verif/witness", "serves_properties": ["C01", "C02", "C03", "C15"],
             "kind_free_text": "compile_fail,E0xxx doctests with compiling twins, run with cargo +nightly test --doc (thorough tier)"},
        ],
        "checks": checks,
        "not_applicable": na,
        "notes": "Technique family: static analysis only. Every check rebuilds the fact base from /repo's current working tree (content-hash cache under /verif/.cache). "
                 "Repairs of genuine defects are `fix:` commits in /repo, listed in /verif/known_findings.json.",
    }
    with open(os.path.join(VERIF, "MANIFEST.json"), "w") as f:
        json.dump(man, f, indent=1)
    print("claimed:", [c["property_id"] for c in checks])
    print("not_applicable:", [n["property_id"] for n in na])


main()
