"""FIELDSTATE: forward affine propagation over the locals AND the fields of `self` of one loop-free body.

The expression engine (expr.py) follows locals through their (reaching) definitions; a state machine such as an iterator keeps its
state in FIELDS of `*self`, which are written and re-read inside one call.  This pass propagates, block by block in topological order,
an affine value (over the field values at entry, `f0:<name>`, and the length of slices reached from self, `LEN`) for every integer
local and every integer field of `*self`; at a merge a key keeps its value only if all predecessors agree.  It is constant/affine
propagation over the CFG, nothing is executed: a body with a loop is refused."""
from fractions import Fraction


def _add(a, b, sign=1):
    if a is None or b is None:
        return None
    out = dict(a)
    for k, v in b.items():
        out[k] = out.get(k, 0) + sign * v
        if out[k] == 0:
            del out[k]
    return out


def fmt(a):
    if a is None:
        return "?"
    parts = []
    for k in sorted(a, key=str):
        c = a[k]
        if k == ():
            if c or len(a) == 1:
                parts.append(str(c))
        else:
            parts.append(("%s*%s" % (c, k)) if c != 1 else str(k))
    return " + ".join(parts) if parts else "0"


def const(c):
    return {(): Fraction(c)} if c else {}


class FieldAffine:
    def __init__(self, body, self_local=1):
        self.body = body
        self.self_local = self_local
        self.ok = not body.natural_loops()
        self.in_state = {}
        self.calls = {}  # bb -> field state at the call terminator
        if self.ok:
            self._run()

    # ---- places
    def _field_of_self(self, pl):
        es = [e for e in pl.fields() if e != "*"]
        if pl.local == self.self_local and len(es) == 1 and es[0][0] == "f":
            return es[0][1]
        return None

    def _eval_place(self, st, pl):
        if pl.is_local():
            return st.get(("l", pl.local))
        f = self._field_of_self(pl)
        if f is not None:
            return st.get(("f", f), {"f0:" + f: Fraction(1)})
        es = [e for e in pl.fields() if e != "*"]
        if len(es) == 1 and es[0][0] == "f" and es[0][1] == "0" and ("lt", pl.local) in st:
            return st[("lt", pl.local)]
        return None

    def _eval(self, st, op):
        if op.kind == "const":
            v = op.int_value()
            return ({(): Fraction(v)} if v else {}) if v is not None else None
        if op.place is None:
            return None
        return self._eval_place(st, op.place)

    def _transfer_stmt(self, st, s):
        if s.k != "assign":
            return
        rv = s.rv
        val = None
        tup = False
        if rv["k"] == "use":
            val = self._eval(st, rv["op"])
        elif rv["k"] == "cast":
            val = self._eval(st, rv["op"])
        elif rv["k"] == "bin" and rv["op"].replace("WithOverflow", "").replace("Unchecked", "") in ("Add", "Sub"):
            sign = 1 if rv["op"].startswith("Add") else -1
            val = _add(self._eval(st, rv["l"]), self._eval(st, rv["r"]), sign)
            tup = rv["op"].endswith("WithOverflow")
        elif rv["k"] == "un" and rv["op"] == "PtrMetadata":
            val = {"LEN": Fraction(1)}
        pl = s.place
        if pl.is_local():
            st.pop(("l", pl.local), None)
            st.pop(("lt", pl.local), None)
            if val is not None:
                st[("lt" if tup else "l", pl.local)] = val
            return
        f = self._field_of_self(pl)
        if f is not None:
            if val is not None:
                st[("f", f)] = val
            else:
                st[("f", f)] = {"?%s@%s" % (f, s.line): Fraction(1)}

    def _transfer_term(self, bi, st, t):
        if t.k == "call":
            self.calls[bi] = dict(st)
            if t.dest is not None and t.dest.is_local():
                st.pop(("l", t.dest.local), None)
                st.pop(("lt", t.dest.local), None)
                if t.callee.method == "len" and len(t.args) == 1:
                    st[("l", t.dest.local)] = {"LEN": Fraction(1)}
            # a call that receives `&mut *self` may rewrite every field
            for a in t.args:
                if a.place is not None and a.place.is_local():
                    for kind, pos, d in self._defs().get(a.place.local, []):
                        if kind == "assign" and d.rv["k"] == "ref" and d.rv.get("mut") and d.rv["place"].local == self.self_local and not [e for e in d.rv["place"].fields() if e != "*"]:
                            for k in [k for k in st if k[0] == "f"]:
                                st[k] = {"?%s@call%s" % (k[1], t.line): Fraction(1)}

    def _defs(self):
        if not hasattr(self, "_d"):
            d = {}
            for pos, s in self.body.stmts():
                if s.k == "assign" and s.place.is_local():
                    d.setdefault(s.place.local, []).append(("assign", pos, s))
            self._d = d
        return self._d

    def _run(self):
        b = self.body
        order = self._topo()
        for bi in order:
            preds = [p for p in b.pred[bi] if p in self.out_state] if bi != 0 else []
            if bi == 0 or not preds:
                st = {}
            else:
                st = dict(self.out_state[preds[0]])
                for p in preds[1:]:
                    o = self.out_state[p]
                    for k in list(st):
                        if o.get(k) != st[k]:
                            # a field that differs between predecessors is unknown from here on (not "entry value")
                            if k[0] == "f":
                                st[k] = {"?%s@bb%d" % (k[1], bi): Fraction(1)}
                            else:
                                del st[k]
                    for k in o:
                        if k[0] == "f" and k not in st:
                            st[k] = {"?%s@bb%d" % (k[1], bi): Fraction(1)}
            self.in_state[bi] = dict(st)
            for s in b.blocks[bi].stmts:
                self._transfer_stmt(st, s)
            self._transfer_term(bi, st, b.blocks[bi].term)
            self.out_state[bi] = st

    def _topo(self):
        b = self.body
        self.out_state = {}
        indeg = {x: len([p for p in b.pred[x] if p in b.reach]) for x in b.reach}
        work = [0]
        order = []
        seen = set()
        while work:
            x = work.pop()
            if x in seen:
                continue
            seen.add(x)
            order.append(x)
            for y in b.succ[x]:
                if y in b.reach:
                    indeg[y] -= 1
                    if indeg[y] <= 0:
                        work.append(y)
        return order

    # ---- queries
    def state_at(self, pos):
        """state just before statement pos=(bb, idx) (idx = len(stmts): before the terminator)"""
        bi, idx = pos
        st = dict(self.in_state.get(bi, {}))
        for s in self.body.blocks[bi].stmts[:idx]:
            self._transfer_stmt(st, s)
        return st

    def operand_at(self, pos, op):
        return self._eval(self.state_at(pos), op)

    def local_at(self, pos, local):
        return self.state_at(pos).get(("l", local))

    def field_at(self, pos, name):
        return self.state_at(pos).get(("f", name), {"f0:" + name: Fraction(1)})
