//! One bad instance per engine primitive.  The self-test asserts that each primitive FIRES here on every run,
//! so a rule that silently stops matching (renamed std path, changed MIR shape on a new nightly) is noticed.
#![allow(dead_code, clippy::all)]

pub fn panic_slice(s: &str) -> &str {
    &s[3..]
}

pub fn panic_unwrap(s: &str) -> u32 {
    s.parse::<u32>().unwrap()
}

pub fn panic_index(v: &[usize], i: usize) -> usize {
    v[i]
}

pub fn total_lookup(v: &[usize], i: usize) -> Option<&usize> {
    v.get(i)
}

pub fn endian_le(x: u32) -> [u8; 4] {
    x.to_le_bytes()
}

pub fn endian_be(x: u32) -> [u8; 4] {
    x.to_be_bytes()
}

pub fn div_unguarded(a: &[f32], b: &[f32]) -> f32 {
    a.len() as f32 / b.len() as f32
}

pub fn div_guarded(a: &[f32], b: &[f32]) -> f32 {
    if b.is_empty() {
        return 0.0;
    }
    a.len() as f32 / b.len() as f32
}

pub fn select_min(a: f32, b: f32) -> f32 {
    if a < b {
        a
    } else {
        b
    }
}

pub fn select_max(a: f32, b: f32) -> f32 {
    if b < a {
        a
    } else {
        b
    }
}

pub struct Store {
    slots: Vec<usize>,
    items: Vec<u32>,
}

impl Store {
    pub fn get_checked(&self, i: usize) -> Option<&u32> {
        match self.slots.get(i) {
            Some(0) => None,
            Some(n) => self.items.get(*n),
            None => None,
        }
    }

    pub fn get_unguarded(&self, i: usize) -> Option<&u32> {
        match self.slots.get(i) {
            Some(n) => self.items.get(*n),
            None => None,
        }
    }

    /// mutates before it validates
    pub fn set_bad(&mut self, i: usize, v: u32) -> Result<(), ()> {
        self.items.push(v);
        if self.slots.get(i).is_none() {
            return Err(());
        }
        Ok(())
    }
}

pub fn narrow(n: usize) -> u8 {
    n as u8
}

pub fn truncate_bytes(s: &str) -> Vec<u8> {
    s.as_bytes().iter().take(255).copied().collect()
}
