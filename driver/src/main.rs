//! hpo-facts: a rustc_private driver that dumps the type-checked program (unoptimised MIR with
//! resolved callees, field names, constants, spans) of the crate being compiled as JSON facts.
//!
//! It never evaluates or interprets MIR. It is injected with RUSTC_WORKSPACE_WRAPPER under
//! `cargo +nightly check`, so it sees the real build's flags and cfgs.
//!
//! env: HPO_FACTS_OUT   directory the fact file is written to (required, else the driver is a plain rustc)
//!      HPO_FACTS_NONCE copied into the fact file so that the caller can assert freshness
#![feature(rustc_private)]

extern crate rustc_abi;
extern crate rustc_driver;
extern crate rustc_hir;
extern crate rustc_interface;
extern crate rustc_middle;
extern crate rustc_span;

use rustc_driver::{Callbacks, Compilation};
use rustc_hir::def::DefKind;
use rustc_hir::def_id::{DefId, LOCAL_CRATE};
use rustc_interface::interface::Compiler;
use rustc_middle::mir::{
    AggregateKind, BasicBlockData, Body, BorrowKind, Const, ConstOperand, Operand, Place,
    PlaceElem, Rvalue, StatementKind, TerminatorKind, VarDebugInfoContents,
};
use rustc_middle::mir::PlaceTy;
use rustc_middle::ty::{self, Ty, TyCtxt};
use rustc_span::{ExpnKind, Span};
use std::fmt::Write as _;

// ---------------------------------------------------------------------------------------------
// minimal JSON value
// ---------------------------------------------------------------------------------------------
enum J {
    Null,
    Bool(bool),
    Num(i128),
    Str(String),
    Arr(Vec<J>),
    Obj(Vec<(&'static str, J)>),
}

fn s<T: Into<String>>(x: T) -> J {
    J::Str(x.into())
}

fn esc(out: &mut String, st: &str) {
    out.push('"');
    for c in st.chars() {
        match c {
            '"' => out.push_str("\\\""),
            '\\' => out.push_str("\\\\"),
            '\n' => out.push_str("\\n"),
            '\r' => out.push_str("\\r"),
            '\t' => out.push_str("\\t"),
            c if (c as u32) < 0x20 => {
                let _ = write!(out, "\\u{:04x}", c as u32);
            }
            c => out.push(c),
        }
    }
    out.push('"');
}

impl J {
    fn write(&self, out: &mut String) {
        match self {
            J::Null => out.push_str("null"),
            J::Bool(b) => out.push_str(if *b { "true" } else { "false" }),
            J::Num(n) => {
                let _ = write!(out, "{}", n);
            }
            J::Str(st) => esc(out, st),
            J::Arr(v) => {
                out.push('[');
                for (i, x) in v.iter().enumerate() {
                    if i > 0 {
                        out.push(',');
                    }
                    x.write(out);
                }
                out.push(']');
            }
            J::Obj(v) => {
                out.push('{');
                for (i, (k, x)) in v.iter().enumerate() {
                    if i > 0 {
                        out.push(',');
                    }
                    esc(out, k);
                    out.push(':');
                    x.write(out);
                }
                out.push('}');
            }
        }
    }
}

// ---------------------------------------------------------------------------------------------

struct Cx<'tcx> {
    tcx: TyCtxt<'tcx>,
}

impl<'tcx> Cx<'tcx> {
    fn path(&self, did: DefId) -> String {
        self.tcx.def_path_str(did)
    }

    /// (file, line, expansion-tag) of a span; the line is that of the outermost call site so that
    /// code produced by a macro is attributed to the line the user wrote.
    fn span_info(&self, span: Span) -> (String, usize, J) {
        let sm = self.tcx.sess.source_map();
        let mut exp = J::Null;
        let mut sp = span;
        if span.from_expansion() {
            // walk to the root expansion
            let mut cur = span;
            loop {
                let d = cur.ctxt().outer_expn_data();
                if d.call_site.from_expansion() {
                    cur = d.call_site;
                } else {
                    let tag = match d.kind {
                        ExpnKind::Macro(_, name) => {
                            let krate = d
                                .macro_def_id
                                .map(|m| self.tcx.crate_name(m.krate).to_string())
                                .unwrap_or_default();
                            format!("m:{}:{}", krate, name)
                        }
                        ExpnKind::Desugaring(k) => format!("d:{:?}", k),
                        ExpnKind::AstPass(k) => format!("a:{:?}", k),
                        ExpnKind::Root => "root".to_string(),
                    };
                    exp = s(tag);
                    sp = d.call_site;
                    break;
                }
            }
        }
        let lo = sm.lookup_char_pos(sp.lo());
        let file = format!("{}", lo.file.name.prefer_local_unconditionally());
        (file, lo.line, exp)
    }

    fn ty_json(&self, t: Ty<'tcx>) -> J {
        let mut peeled = t;
        loop {
            match peeled.kind() {
                ty::Ref(_, inner, _) => peeled = *inner,
                ty::RawPtr(inner, _) => peeled = *inner,
                _ => break,
            }
        }
        let adt = match peeled.kind() {
            ty::Adt(a, _) => s(self.path(a.did())),
            ty::Closure(d, _) => s(self.path(*d)),
            ty::FnDef(d, _) => s(self.path(*d)),
            _ => J::Null,
        };
        let kind = match t.kind() {
            ty::Ref(_, _, m) => {
                if m.is_mut() {
                    "refmut"
                } else {
                    "ref"
                }
            }
            ty::RawPtr(..) => "ptr",
            ty::Adt(..) => "adt",
            ty::Closure(..) => "closure",
            ty::FnDef(..) => "fndef",
            ty::FnPtr(..) => "fnptr",
            ty::Tuple(..) => "tuple",
            ty::Bool => "bool",
            ty::Int(..) => "int",
            ty::Uint(..) => "uint",
            ty::Float(..) => "float",
            ty::Str => "str",
            ty::Slice(..) => "slice",
            ty::Array(..) => "array",
            ty::Param(..) => "param",
            ty::Never => "never",
            _ => "other",
        };
        J::Obj(vec![("s", s(format!("{}", t))), ("k", s(kind)), ("adt", adt)])
    }

    fn place(&self, body: &Body<'tcx>, place: &Place<'tcx>) -> J {
        let tcx = self.tcx;
        let mut pty = PlaceTy::from_ty(body.local_decls[place.local].ty);
        let mut projs = Vec::new();
        for elem in place.projection.iter() {
            let j = match elem {
                PlaceElem::Deref => s("*"),
                PlaceElem::Field(f, _fty) => {
                    let (owner, name): (String, String) = match pty.ty.kind() {
                        ty::Adt(adt, _) => {
                            let v = match pty.variant_index {
                                Some(vi) => Some(adt.variant(vi)),
                                None => {
                                    if adt.is_enum() {
                                        None
                                    } else {
                                        Some(adt.non_enum_variant())
                                    }
                                }
                            };
                            let n = v
                                .and_then(|v| v.fields.get(f).map(|fd| fd.name.to_string()))
                                .unwrap_or_else(|| format!("{}", f.index()));
                            (self.path(adt.did()), n)
                        }
                        ty::Tuple(_) => ("tuple".to_string(), format!("{}", f.index())),
                        ty::Closure(cd, _) => {
                            let names = tcx.closure_saved_names_of_captured_variables(*cd);
                            let n = names
                                .get(f)
                                .map(|sy| sy.to_string())
                                .unwrap_or_else(|| format!("{}", f.index()));
                            (format!("closure:{}", self.path(*cd)), n)
                        }
                        _ => ("?".to_string(), format!("{}", f.index())),
                    };
                    J::Obj(vec![
                        ("f", s(name)),
                        ("adt", s(owner)),
                        ("i", J::Num(f.index() as i128)),
                    ])
                }
                PlaceElem::Index(l) => J::Obj(vec![("idx", J::Num(l.index() as i128))]),
                PlaceElem::ConstantIndex { offset, min_length, from_end } => J::Obj(vec![
                    ("cidx", J::Num(offset as i128)),
                    ("min", J::Num(min_length as i128)),
                    ("from_end", J::Bool(from_end)),
                ]),
                PlaceElem::Subslice { from, to, from_end } => J::Obj(vec![
                    ("sub_from", J::Num(from as i128)),
                    ("sub_to", J::Num(to as i128)),
                    ("from_end", J::Bool(from_end)),
                ]),
                PlaceElem::Downcast(name, vi) => {
                    let n = match name {
                        Some(sy) => sy.to_string(),
                        None => match pty.ty.kind() {
                            ty::Adt(adt, _) => adt.variant(vi).name.to_string(),
                            _ => format!("{}", vi.index()),
                        },
                    };
                    J::Obj(vec![("dc", s(n)), ("vi", J::Num(vi.index() as i128))])
                }
                _ => s("opaque"),
            };
            projs.push(j);
            pty = pty.projection_ty(tcx, elem);
        }
        J::Obj(vec![("l", J::Num(place.local.index() as i128)), ("p", J::Arr(projs))])
    }

    fn constant(&self, owner: DefId, c: &ConstOperand<'tcx>) -> J {
        let tcx = self.tcx;
        let cty = c.const_.ty();
        let mut v: Vec<(&'static str, J)> = vec![
            ("ty", s(format!("{}", cty))),
            ("val", s(format!("{}", c.const_))),
        ];
        match cty.kind() {
            ty::FnDef(d, args) => {
                v.push(("fn", s(self.path(*d))));
                v.push(("fn_args", s(tcx.def_path_str_with_args(*d, args))));
                if matches!(tcx.def_kind(*d), DefKind::Ctor(..)) {
                    v.push(("ctor", J::Bool(true)));
                }
                // resolve fn items used as values, like callees
                let env = ty::TypingEnv::post_analysis(tcx, owner);
                if let Ok(Some(inst)) = ty::Instance::try_resolve(tcx, env, *d, args) {
                    v.push(("res", s(self.path(inst.def_id()))));
                }
            }
            ty::Closure(d, _) => {
                v.push(("closure", s(self.path(*d))));
            }
            _ => {}
        }
        if let Const::Unevaluated(uv, _) = c.const_ {
            v.push(("def", s(self.path(uv.def))));
            if let Some(p) = uv.promoted {
                v.push(("promoted", J::Num(p.index() as i128)));
            }
        }
        if cty.is_integral() || cty.is_bool() || cty.is_char() {
            let env = ty::TypingEnv::post_analysis(tcx, owner);
            if let Some(si) = c.const_.try_eval_scalar_int(tcx, env) {
                let bits = si.to_bits(si.size());
                v.push(("int", J::Num(bits as i128)));
            }
        }
        J::Obj(v)
    }

    fn operand(&self, owner: DefId, body: &Body<'tcx>, op: &Operand<'tcx>) -> J {
        match op {
            Operand::Copy(p) => J::Obj(vec![("copy", self.place(body, p))]),
            Operand::Move(p) => J::Obj(vec![("move", self.place(body, p))]),
            Operand::Constant(c) => J::Obj(vec![("const", self.constant(owner, c))]),
            #[allow(unreachable_patterns)]
            _ => J::Obj(vec![("other", s(format!("{:?}", op)))]),
        }
    }

    fn rvalue(&self, owner: DefId, body: &Body<'tcx>, rv: &Rvalue<'tcx>) -> J {
        let tcx = self.tcx;
        match rv {
            Rvalue::Use(op, ..) => J::Obj(vec![("k", s("use")), ("op", self.operand(owner, body, op))]),
            Rvalue::Ref(_, bk, p) => J::Obj(vec![
                ("k", s("ref")),
                ("mut", J::Bool(matches!(bk, BorrowKind::Mut { .. }))),
                ("place", self.place(body, p)),
            ]),
            Rvalue::RawPtr(_, p) => J::Obj(vec![("k", s("rawptr")), ("place", self.place(body, p))]),
            Rvalue::CopyForDeref(p) => J::Obj(vec![
                ("k", s("use")),
                ("op", J::Obj(vec![("copy", self.place(body, p))])),
            ]),
            Rvalue::Cast(kind, op, t) => J::Obj(vec![
                ("k", s("cast")),
                ("kind", s(format!("{:?}", kind))),
                ("op", self.operand(owner, body, op)),
                ("from_ty", s(format!("{}", op.ty(body, tcx)))),
                ("ty", s(format!("{}", t))),
            ]),
            Rvalue::BinaryOp(op, ops) => J::Obj(vec![
                ("k", s("bin")),
                ("op", s(format!("{:?}", op))),
                ("l", self.operand(owner, body, &ops.0)),
                ("r", self.operand(owner, body, &ops.1)),
                ("lty", s(format!("{}", ops.0.ty(body, tcx)))),
            ]),
            Rvalue::UnaryOp(op, o) => J::Obj(vec![
                ("k", s("un")),
                ("op", s(format!("{:?}", op))),
                ("o", self.operand(owner, body, o)),
                ("oty", s(format!("{}", o.ty(body, tcx)))),
            ]),
            Rvalue::Discriminant(p) => J::Obj(vec![("k", s("discr")), ("place", self.place(body, p))]),
            Rvalue::Aggregate(kind, ops) => {
                let mut v: Vec<(&'static str, J)> = vec![("k", s("agg"))];
                match &**kind {
                    AggregateKind::Array(t) => {
                        v.push(("agg", s("array")));
                        v.push(("elem_ty", s(format!("{}", t))));
                    }
                    AggregateKind::Tuple => v.push(("agg", s("tuple"))),
                    AggregateKind::Adt(did, vi, _, _, active) => {
                        let adt = tcx.adt_def(*did);
                        let var = adt.variant(*vi);
                        v.push(("agg", s("adt")));
                        v.push(("adt", s(self.path(*did))));
                        v.push(("variant", s(var.name.to_string())));
                        let names: Vec<J> = match active {
                            Some(f) => vec![s(var.fields[*f].name.to_string())],
                            None => var.fields.iter().map(|f| s(f.name.to_string())).collect(),
                        };
                        v.push(("fields", J::Arr(names)));
                    }
                    AggregateKind::Closure(did, _) => {
                        v.push(("agg", s("closure")));
                        v.push(("closure", s(self.path(*did))));
                        let names = tcx.closure_saved_names_of_captured_variables(*did);
                        v.push(("fields", J::Arr(names.iter().map(|n| s(n.to_string())).collect())));
                    }
                    _ => v.push(("agg", s("other"))),
                }
                v.push(("ops", J::Arr(ops.iter().map(|o| self.operand(owner, body, o)).collect())));
                J::Obj(v)
            }
            Rvalue::Repeat(op, n) => J::Obj(vec![
                ("k", s("repeat")),
                ("op", self.operand(owner, body, op)),
                ("n", s(format!("{}", n))),
            ]),
            _ => J::Obj(vec![("k", s("other")), ("dbg", s(format!("{:?}", rv)))]),
        }
    }

    fn callee(&self, owner: DefId, body: &Body<'tcx>, func: &Operand<'tcx>) -> J {
        let tcx = self.tcx;
        let fty = func.ty(body, tcx);
        match fty.kind() {
            ty::FnDef(did, gargs) => {
                let mut v: Vec<(&'static str, J)> = vec![
                    ("def", s(self.path(*did))),
                    ("def_args", s(tcx.def_path_str_with_args(*did, gargs))),
                    ("local", J::Bool(did.is_local())),
                ];
                v.push(("gargs", J::Arr(gargs.iter().map(|a| s(format!("{}", a))).collect())));
                if let Some(tr) = tcx.trait_of_assoc(*did) {
                    v.push(("trait", s(self.path(tr))));
                    if let Some(st) = gargs.types().next() {
                        v.push(("self_ty", self.ty_json(st)));
                    }
                } else if let Some(imp) = tcx.impl_of_assoc(*did) {
                    let st = tcx.type_of(imp).instantiate_identity().skip_norm_wip();
                    v.push(("impl_self", s(format!("{}", st))));
                }
                if matches!(tcx.def_kind(*did), DefKind::Ctor(..)) {
                    v.push(("ctor", J::Bool(true)));
                }
                let env = ty::TypingEnv::post_analysis(tcx, owner);
                match ty::Instance::try_resolve(tcx, env, *did, gargs) {
                    Ok(Some(inst)) => {
                        let rd = inst.def_id();
                        v.push(("res", s(self.path(rd))));
                        v.push(("res_args", s(tcx.def_path_str_with_args(rd, inst.args))));
                        v.push(("res_local", J::Bool(rd.is_local())));
                        v.push(("res_kind", s(format!("{:?}", std::mem::discriminant(&inst.def)))));
                        if let ty::InstanceKind::Item(_) = inst.def {
                            v.push(("res_item", J::Bool(true)));
                        }
                    }
                    _ => v.push(("res", J::Null)),
                }
                J::Obj(v)
            }
            _ => J::Obj(vec![
                ("indirect", self.operand(owner, body, func)),
                ("fty", s(format!("{}", fty))),
            ]),
        }
    }

    fn block(&self, owner: DefId, body: &Body<'tcx>, bb: &BasicBlockData<'tcx>) -> J {
        let mut stmts = Vec::new();
        for st in &bb.statements {
            let (_, line, exp) = self.span_info(st.source_info.span);
            match &st.kind {
                StatementKind::Assign(b) => {
                    let (p, rv) = &**b;
                    stmts.push(J::Obj(vec![
                        ("k", s("assign")),
                        ("place", self.place(body, p)),
                        ("rv", self.rvalue(owner, body, rv)),
                        ("line", J::Num(line as i128)),
                        ("exp", exp),
                    ]));
                }
                StatementKind::SetDiscriminant { place, variant_index } => {
                    stmts.push(J::Obj(vec![
                        ("k", s("setdiscr")),
                        ("place", self.place(body, place)),
                        ("vi", J::Num(variant_index.index() as i128)),
                        ("line", J::Num(line as i128)),
                        ("exp", exp),
                    ]));
                }
                _ => {}
            }
        }
        let term = bb.terminator();
        let (_, line, exp) = self.span_info(term.source_info.span);
        let mut t: Vec<(&'static str, J)> = Vec::new();
        match &term.kind {
            TerminatorKind::Goto { target } => {
                t.push(("k", s("goto")));
                t.push(("target", J::Num(target.index() as i128)));
            }
            TerminatorKind::SwitchInt { discr, targets } => {
                t.push(("k", s("switch")));
                t.push(("discr", self.operand(owner, body, discr)));
                t.push(("discr_ty", s(format!("{}", discr.ty(body, self.tcx)))));
                let arms: Vec<J> = targets
                    .iter()
                    .map(|(v, bb)| J::Arr(vec![J::Num(v as i128), J::Num(bb.index() as i128)]))
                    .collect();
                t.push(("targets", J::Arr(arms)));
                t.push(("otherwise", J::Num(targets.otherwise().index() as i128)));
            }
            TerminatorKind::Return => t.push(("k", s("return"))),
            TerminatorKind::Unreachable => t.push(("k", s("unreachable"))),
            TerminatorKind::Drop { place, target, .. } => {
                t.push(("k", s("drop")));
                t.push(("place", self.place(body, place)));
                t.push(("target", J::Num(target.index() as i128)));
            }
            TerminatorKind::Call { func, args, destination, target, fn_span, .. } => {
                t.push(("k", s("call")));
                t.push(("func", self.callee(owner, body, func)));
                t.push((
                    "args",
                    J::Arr(args.iter().map(|a| self.operand(owner, body, &a.node)).collect()),
                ));
                t.push(("dest", self.place(body, destination)));
                t.push((
                    "target",
                    match target {
                        Some(b) => J::Num(b.index() as i128),
                        None => J::Null,
                    },
                ));
                let (_, fl, _) = self.span_info(*fn_span);
                t.push(("fn_line", J::Num(fl as i128)));
            }
            TerminatorKind::Assert { cond, expected, msg, target, .. } => {
                t.push(("k", s("assert")));
                t.push(("cond", self.operand(owner, body, cond)));
                t.push(("expected", J::Bool(*expected)));
                let m = format!("{:?}", msg);
                let short: String = m.chars().take_while(|c| c.is_alphanumeric()).collect();
                t.push(("msg", s(short)));
                t.push(("msg_full", s(m)));
                t.push(("target", J::Num(target.index() as i128)));
            }
            TerminatorKind::UnwindResume => t.push(("k", s("resume"))),
            TerminatorKind::UnwindTerminate(_) => t.push(("k", s("terminate"))),
            TerminatorKind::FalseEdge { real_target, .. } => {
                t.push(("k", s("goto")));
                t.push(("target", J::Num(real_target.index() as i128)));
            }
            TerminatorKind::FalseUnwind { real_target, .. } => {
                t.push(("k", s("goto")));
                t.push(("target", J::Num(real_target.index() as i128)));
            }
            other => {
                t.push(("k", s("other")));
                t.push(("dbg", s(format!("{:?}", other))));
            }
        }
        t.push(("line", J::Num(line as i128)));
        t.push(("exp", exp));
        J::Obj(vec![
            ("cleanup", J::Bool(bb.is_cleanup)),
            ("stmts", J::Arr(stmts)),
            ("term", J::Obj(t)),
        ])
    }

    fn is_test_item(&self, did: DefId) -> bool {
        let tcx = self.tcx;
        let mut cur = Some(did);
        while let Some(d) = cur {
            if matches!(tcx.def_kind(d), DefKind::Mod) {
                if let Some(name) = tcx.opt_item_name(d) {
                    let n = name.to_string();
                    if n == "test" || n == "tests" || n.starts_with("test_") {
                        return true;
                    }
                }
            }
            cur = tcx.opt_parent(d);
        }
        false
    }

    fn body_json(&self, id: String, did: DefId, kind: &str, body: &Body<'tcx>, promoted_of: Option<String>) -> J {
        let tcx = self.tcx;
        let (file, line, exp) = self.span_info(tcx.def_span(did));
        let mut v: Vec<(&'static str, J)> = vec![
            ("id", s(id)),
            ("kind", s(kind)),
            ("file", s(file)),
            ("line", J::Num(line as i128)),
            ("exp", exp),
            ("test", J::Bool(self.is_test_item(did))),
            ("arg_count", J::Num(body.arg_count as i128)),
        ];
        if let Some(p) = promoted_of {
            v.push(("promoted_of", s(p)));
        }
        let dk = tcx.def_kind(did);
        if matches!(dk, DefKind::Fn | DefKind::AssocFn) {
            let vis = tcx.visibility(did);
            let vs = match vis {
                ty::Visibility::Public => "pub".to_string(),
                ty::Visibility::Restricted(m) => format!("restricted:{}", self.path(m)),
            };
            v.push(("vis", s(vs)));
            if let Some(l) = did.as_local() {
                let ev = tcx.effective_visibilities(());
                v.push(("reachable", J::Bool(ev.is_reachable(l))));
                v.push(("exported", J::Bool(ev.is_exported(l))));
            }
            v.push(("name", s(tcx.item_name(did).to_string())));
            let sig = tcx.fn_sig(did).instantiate_identity().skip_norm_wip();
            v.push(("sig", s(format!("{}", sig))));
        }
        if matches!(dk, DefKind::Closure) {
            let parent = tcx.typeck_root_def_id(did);
            v.push(("root", s(self.path(parent))));
            if let Some(p) = tcx.opt_parent(did) {
                v.push(("parent", s(self.path(p))));
            }
            let names = tcx.closure_saved_names_of_captured_variables(did);
            v.push(("upvars", J::Arr(names.iter().map(|n| s(n.to_string())).collect())));
        }
        if matches!(dk, DefKind::AssocFn | DefKind::AssocConst { .. }) {
            if let Some(imp) = tcx.impl_of_assoc(did) {
                let st = tcx.type_of(imp).instantiate_identity().skip_norm_wip();
                v.push(("impl_self", self.ty_json(st)));
                if let Some(tr) = tcx.impl_opt_trait_ref(imp) {
                    let tr = tr.instantiate_identity().skip_norm_wip();
                    v.push(("impl_trait", s(self.path(tr.def_id))));
                    v.push(("impl_trait_ref", s(format!("{}", tr))));
                }
            } else if let Some(tr) = tcx.trait_of_assoc(did) {
                v.push(("trait_provided", s(self.path(tr))));
            }
        }
        // locals
        let mut locals = Vec::new();
        for (_i, d) in body.local_decls.iter_enumerated() {
            locals.push(self.ty_json(d.ty));
        }
        v.push(("locals", J::Arr(locals)));
        // debug names
        let mut dbg = Vec::new();
        for vdi in &body.var_debug_info {
            let mut e: Vec<(&'static str, J)> = vec![("name", s(vdi.name.to_string()))];
            if let VarDebugInfoContents::Place(p) = &vdi.value {
                e.push(("place", self.place(body, p)));
            }
            if let Some(a) = vdi.argument_index {
                e.push(("arg", J::Num(a as i128)));
            }
            dbg.push(J::Obj(e));
        }
        v.push(("debug", J::Arr(dbg)));
        let mut blocks = Vec::new();
        for bb in body.basic_blocks.iter() {
            blocks.push(self.block(did, body, bb));
        }
        v.push(("blocks", J::Arr(blocks)));
        J::Obj(v)
    }
}

struct Cb;

impl Callbacks for Cb {
    fn after_analysis<'tcx>(&mut self, _c: &Compiler, tcx: TyCtxt<'tcx>) -> Compilation {
        let Ok(outdir) = std::env::var("HPO_FACTS_OUT") else {
            return Compilation::Continue;
        };
        let nonce = std::env::var("HPO_FACTS_NONCE").unwrap_or_default();
        let cx = Cx { tcx };
        let crate_name = tcx.crate_name(LOCAL_CRATE).to_string();
        let is_test = tcx.sess.opts.test;
        let crate_types: Vec<J> = tcx.crate_types().iter().map(|c| s(format!("{:?}", c))).collect();

        let mut bodies = Vec::new();
        for ldid in tcx.mir_keys(()) {
            let did = ldid.to_def_id();
            let dk = tcx.def_kind(did);
            match dk {
                DefKind::Fn | DefKind::AssocFn | DefKind::Closure => {
                    let body = tcx.optimized_mir(did);
                    let kind = match dk {
                        DefKind::Fn => "Fn",
                        DefKind::AssocFn => "AssocFn",
                        _ => "Closure",
                    };
                    let id = cx.path(did);
                    bodies.push(cx.body_json(id.clone(), did, kind, body, None));
                    let promoted = tcx.promoted_mir(did);
                    for (pi, pb) in promoted.iter_enumerated() {
                        bodies.push(cx.body_json(
                            format!("{}::promoted[{}]", id, pi.index()),
                            did,
                            "Promoted",
                            pb,
                            Some(id.clone()),
                        ));
                    }
                }
                DefKind::Const { .. } | DefKind::AssocConst { .. } => {
                    let body = tcx.mir_for_ctfe(did);
                    let id = cx.path(did);
                    bodies.push(cx.body_json(id.clone(), did, "Const", body, None));
                    // constant arrays behind a reference (`const T: &[f64] = &[..]`) live in a promoted body
                    let promoted = tcx.promoted_mir(did);
                    for (pi, pb) in promoted.iter_enumerated() {
                        bodies.push(cx.body_json(
                            format!("{}::promoted[{}]", id, pi.index()),
                            did,
                            "Promoted",
                            pb,
                            Some(id.clone()),
                        ));
                    }
                }
                _ => {}
            }
        }

        // ADT definitions of the local crate
        let mut adts = Vec::new();
        for ldid in tcx.hir_crate_items(()).definitions() {
            let did = ldid.to_def_id();
            if matches!(tcx.def_kind(did), DefKind::Struct | DefKind::Enum) {
                let adt = tcx.adt_def(did);
                let mut variants = Vec::new();
                for var in adt.variants() {
                    let fields: Vec<J> = var
                        .fields
                        .iter()
                        .map(|f| {
                            J::Obj(vec![
                                ("name", s(f.name.to_string())),
                                ("ty", s(format!("{}", tcx.type_of(f.did).instantiate_identity().skip_norm_wip()))),
                                ("pub", J::Bool(matches!(f.vis, ty::Visibility::Public))),
                            ])
                        })
                        .collect();
                    variants.push(J::Obj(vec![("name", s(var.name.to_string())), ("fields", J::Arr(fields))]));
                }
                let (file, line, _) = cx.span_info(tcx.def_span(did));
                adts.push(J::Obj(vec![
                    ("path", s(cx.path(did))),
                    ("enum", J::Bool(adt.is_enum())),
                    ("variants", J::Arr(variants)),
                    ("file", s(file)),
                    ("line", J::Num(line as i128)),
                    ("test", J::Bool(cx.is_test_item(did))),
                ]));
            }
        }

        let root = J::Obj(vec![
            ("crate", s(crate_name.clone())),
            ("nonce", s(nonce)),
            ("test_build", J::Bool(is_test)),
            ("crate_types", J::Arr(crate_types)),
            ("bodies", J::Arr(bodies)),
            ("adts", J::Arr(adts)),
        ]);
        let mut out = String::with_capacity(8 << 20);
        root.write(&mut out);
        let fname = format!(
            "{}/{}-{}-{}.json",
            outdir,
            crate_name,
            if is_test { "test" } else { "nontest" },
            std::process::id()
        );
        // one write per process
        std::fs::write(&fname, out).expect("hpo-facts: cannot write fact file");
        Compilation::Continue
    }
}

fn main() {
    let mut args: Vec<String> = std::env::args().collect();
    // used as RUSTC_WORKSPACE_WRAPPER: argv[1] is the path of the real rustc
    if args.len() > 1 && !args[1].starts_with('-') {
        let a1 = std::path::Path::new(&args[1]);
        let is_rustc = a1.file_stem().map(|f| f == "rustc").unwrap_or(false);
        if is_rustc {
            args.remove(1);
        }
    }
    let mut cb = Cb;
    rustc_driver::run_compiler(&args, &mut cb);
}
